#!/bin/bash
# usage: seedconfirm.sh <seed id e.g. C05-r5> -- in the seed's scratch worktree: unedited suite with the change, demo with and without
sid="$1"; prop="${sid%%-*}"
export GOFLAGS=-mod=mod GOPROXY=off GOSUMDB=off GOTOOLCHAIN=local
eval $(python3 -c "
import json;m=json.load(open('/tmp/seed/$sid/meta.json'));print('f=%s d=%s r=\"%s\"'%(m.get('demo_file'),m.get('demo_dir'),m.get('demo_run')))")
if [ "$f" != "None" ]; then /verif/seeddemo.sh "$sid" "$f" "$d" "$r" </dev/null; else echo "$sid: no Go test demo recorded (see meta.json demo)"; fi
(cd /tmp/wt-$sid && git status --short | tr '\n' ' '; go build ./... && go test -vet=off -count=1 ./... 2>&1 | grep -v "no test files" | awk '{print $1}' | sort | uniq -c | tr '\n' ' '; echo "<- $sid suite")
