package interp

import (
	"encoding/json"
	"fmt"
	"go/token"
	"go/types"
	"os"
	"os/exec"
	"sort"
	"strings"
	"sync"
	"time"

	"gosmt/smt"

	"golang.org/x/tools/go/ssa"
)

type Config struct {
	Workers       int
	MaxInstrs     int64
	MaxPaths      int64
	MaxWall       time.Duration
	MaxVirtualNs  int64
	MaxGoroutines int
	ConcretizeCap int
	SolverCmd     []string
	SolverTimeout int // ms
	SymSched      bool
	MaxPreempt    int
	Delays        int  // delay-bounded scheduling: deviations from the deterministic scheduler per path
	DelayPreempt  bool // delays may also be spent at synchronisation points of the running goroutine
	DelayAny      bool // a deviation to any runnable goroutine costs one delay (default: skipping i goroutines costs i)
	SelectFirst   bool
	SymMapOrder   bool
	MaxViolations int
	Seed          int64
	Concolic      bool
	Domains       bool
	Witnesses     int // number of OK paths for which a witness model is kept
}

func DefaultConfig() Config {
	return Config{
		Workers: 8, MaxInstrs: 3_000_000, MaxPaths: 200_000, MaxWall: 10 * time.Minute,
		MaxVirtualNs: int64(3600) * 1e9, MaxGoroutines: 64, ConcretizeCap: 64,
		SolverCmd: solverCmd(), SolverTimeout: 20000, MaxViolations: 3, Witnesses: 5, Concolic: os.Getenv("GOSMT_NOCONCOLIC") == "", Domains: os.Getenv("GOSMT_NODOMAINS") == "",
	}
}

// Explorer runs one harness entry to exhaustion (re-execution DFS).
type Explorer struct {
	Cfg      Config
	Prog     *ssa.Program
	Entry    *ssa.Function
	Args     []int64 // concrete int arguments of the entry
	Replace  map[string]*ssa.Function
	KnownIDs map[string]bool
	InitPkgs func(p *ssa.Package) bool // may the engine run this package's init?
	OnExit   func(w *Worker, code int)

	Sem      chan struct{} // global worker slots shared by concurrently running explorers
	wg       sync.WaitGroup
	nworkers int
	active   int
	mu       sync.Mutex
	work     []workItem
	busy     int
	stop     bool
	cond     *sync.Cond
	start    time.Time

	// results
	Paths, PathsOK, PathsInfeasible, PathsInconclusive int64
	Decisions, Obligations, Discharged, QuickDecided   int64
	Violations                                         []*Violation
	Inconclusive                                       map[string]int
	Reached                                            map[string]int
	Findings                                           map[string]int
	FindingSample                                      map[string]map[string]uint64
	Funcs                                              map[string]int
	FuncFiles                                          map[string]string
	Intrinsics                                         map[string]int
	Stubs                                              map[string]int
	Once                                               map[string]int
	Witnesses                                          []map[string]interface{}
	SolverSat, SolverUnsat, SolverUnknown              int
	SolverTime                                         time.Duration
	SolverErrors                                       []string
	Instrs                                             int64
	MaxTrace                                           int
	Wall                                               time.Duration
}

func (ex *Explorer) Known(id string) bool { return ex.KnownIDs[id] }

type workItem struct {
	prefix []Decision
	model  map[string]uint64 // a model of the path condition at the end of the prefix (may be nil)
}

func (ex *Explorer) push(prefix []Decision) { ex.pushM(prefix, nil) }

func (ex *Explorer) pushM(prefix []Decision, m map[string]uint64) {
	ex.mu.Lock()
	ex.work = append(ex.work, workItem{prefix, m})
	ex.mu.Unlock()
	ex.cond.Signal()
	ex.maybeGrow()
}

func (ex *Explorer) addQuick()      { ex.mu.Lock(); ex.QuickDecided++; ex.mu.Unlock() }
func (ex *Explorer) addDecision()   { ex.mu.Lock(); ex.Decisions++; ex.mu.Unlock() }
func (ex *Explorer) addObligation() { ex.mu.Lock(); ex.Obligations++; ex.mu.Unlock() }
func (ex *Explorer) addDischarged() { ex.mu.Lock(); ex.Discharged++; ex.mu.Unlock() }

func (ex *Explorer) noteInconclusive(why string) {
	ex.mu.Lock()
	if len(why) > 300 {
		why = why[:300]
	}
	ex.Inconclusive[why]++
	ex.mu.Unlock()
}
func (ex *Explorer) noteOnce(s string)      { ex.mu.Lock(); ex.Once[s]++; ex.mu.Unlock() }
func (ex *Explorer) noteIntrinsic(s string) { ex.mu.Lock(); ex.Intrinsics[s]++; ex.mu.Unlock() }
func (ex *Explorer) noteStub(s string)      { ex.mu.Lock(); ex.Stubs[s]++; ex.mu.Unlock() }
func (ex *Explorer) noteFunc(fn *ssa.Function) {
	ex.mu.Lock()
	n := fn.String()
	if ex.Funcs[n] == 0 {
		ex.FuncFiles[n] = ex.Prog.Fset.Position(fn.Pos()).Filename
	}
	ex.Funcs[n]++
	ex.mu.Unlock()
}
func (ex *Explorer) stopped() bool {
	ex.mu.Lock()
	defer ex.mu.Unlock()
	if !ex.stop && time.Since(ex.start) > ex.Cfg.MaxWall {
		ex.stop = true
		ex.Inconclusive["wall-clock budget exhausted"]++
	}
	return ex.stop
}

// Run explores all paths of the entry.
func (ex *Explorer) Run() {
	ex.cond = sync.NewCond(&ex.mu)
	ex.Inconclusive = map[string]int{}
	ex.Reached = map[string]int{}
	ex.Findings = map[string]int{}
	ex.FindingSample = map[string]map[string]uint64{}
	ex.Funcs = map[string]int{}
	ex.FuncFiles = map[string]string{}
	ex.Intrinsics = map[string]int{}
	ex.Stubs = map[string]int{}
	ex.Once = map[string]int{}
	ex.start = time.Now()
	ex.work = []workItem{{}}
	if f := os.Getenv("GOSMT_ONLYPREFIX"); f != "" {
		// debugging: run exactly one recorded path
		var rec struct {
			Trace []Decision `json:"trace"`
		}
		if b, err := os.ReadFile(f); err == nil && json.Unmarshal(b, &rec) == nil {
			ex.work = []workItem{{prefix: rec.Trace}}
			ex.Cfg.MaxPaths = 1
		}
	}
	if ex.Sem == nil {
		ex.Sem = make(chan struct{}, ex.Cfg.Workers)
	}
	ex.Sem <- struct{}{} // the first worker always runs
	ex.spawnWorker()
	ex.wg.Wait()
	ex.Wall = time.Since(ex.start)
}

// spawnWorker starts one worker; the caller holds a slot of ex.Sem for it.
func (ex *Explorer) spawnWorker() {
	ex.mu.Lock()
	id := ex.nworkers
	ex.nworkers++
	ex.active++
	ex.mu.Unlock()
	ex.wg.Add(1)
	go func() {
		defer ex.wg.Done()
		defer func() {
			<-ex.Sem
			ex.mu.Lock()
			ex.active--
			ex.mu.Unlock()
			ex.cond.Broadcast()
		}()
		w, err := newWorker(ex, id)
		if err != nil {
			ex.noteInconclusive("cannot start solver: " + err.Error())
			ex.mu.Lock()
			ex.stop = true
			ex.mu.Unlock()
			ex.cond.Broadcast()
			return
		}
		defer w.close()
		w.loop()
	}()
}

// maybeGrow adds a worker when the queue is long and a global slot is free.
func (ex *Explorer) maybeGrow() {
	ex.mu.Lock()
	want := len(ex.work) > 2 && ex.active < ex.Cfg.Workers && !ex.stop
	ex.mu.Unlock()
	if !want {
		return
	}
	select {
	case ex.Sem <- struct{}{}:
		ex.spawnWorker()
	default:
	}
}

func (w *Worker) loop() {
	ex := w.ex
	for {
		ex.mu.Lock()
		for len(ex.work) == 0 && ex.busy > 0 && !ex.stop {
			ex.cond.Wait()
		}
		if ex.stop || len(ex.work) == 0 {
			ex.mu.Unlock()
			ex.cond.Broadcast()
			return
		}
		item := ex.work[len(ex.work)-1]
		ex.work = ex.work[:len(ex.work)-1]
		ex.busy++
		if ex.Paths >= ex.Cfg.MaxPaths {
			ex.Inconclusive[fmt.Sprintf("path budget (%d) exhausted", ex.Cfg.MaxPaths)]++
			ex.stop = true
			ex.busy--
			ex.mu.Unlock()
			ex.cond.Broadcast()
			return
		}
		ex.Paths++
		ex.mu.Unlock()

		p := w.runPath(item.prefix, item.model)

		ex.mu.Lock()
		ex.busy--
		ex.Instrs += p.instrs
		if len(p.trace) > ex.MaxTrace {
			ex.MaxTrace = len(p.trace)
		}
		switch p.Outcome {
		case OutOK:
			ex.PathsOK++
			for _, l := range sortedKeys(p.Reached) {
				ex.Reached[l]++
			}
			for _, l := range sortedKeys(p.Findings) {
				ex.Findings[l]++
				if _, ok := ex.FindingSample[l]; !ok && p.Witness != nil {
					ex.FindingSample[l] = p.Witness
				}
			}
			if p.Witness != nil && len(ex.Witnesses) < ex.Cfg.Witnesses {
				ex.Witnesses = append(ex.Witnesses, map[string]interface{}{"model": p.Witness, "observed": p.Observed, "decisions": len(p.trace), "findings": sortedKeys(p.Findings)})
			}
		case OutInfeasible:
			ex.PathsInfeasible++
		case OutViolation:
			ex.Violations = append(ex.Violations, p.Violations...)
			if len(ex.Violations) >= ex.Cfg.MaxViolations {
				ex.stop = true
			}
		case OutInconclusive:
			ex.PathsInconclusive++
			if d := os.Getenv("GOSMT_DEBUGDIR"); d != "" {
				b, _ := json.Marshal(map[string]interface{}{"why": p.Why, "trace": p.trace, "prefix": item.prefix})
				os.WriteFile(fmt.Sprintf("%s/inconclusive-%s-%d.json", d, ex.Entry.Name(), ex.Paths), b, 0o644)
			}
			why := p.Why
			if len(why) > 600 {
				why = why[:600]
			}
			ex.Inconclusive["path: "+why]++
		}
		ex.mu.Unlock()
		ex.cond.Broadcast()
	}
}

// ---------------------------------------------------------------- worker

type knownPanic struct {
	id     string
	substr []string
}

type Worker struct {
	ex     *Explorer
	id     int
	prog   *ssa.Program
	solver *smt.Solver
	path   *Path
	sched  *Sched

	globals       map[*ssa.Global]*Value // per path
	shared        map[*ssa.Global]*Value // stdlib state, initialised once per worker
	initDone      map[*ssa.Package]bool  // per path
	sharedInit    map[*ssa.Package]bool
	inInit        int
	knownPanics   []knownPanic
	env           map[string]Str
	allowDeadlock bool
	pathsRun      int
	timers        map[*Value]*timerInfo
	ptrIDs        map[interface{}]int
	out           []*smt.Term
	floatText     map[int64]Str
	floatByText   map[string]*smt.Term
}

func newWorker(ex *Explorer, id int) (*Worker, error) {
	s, err := smt.NewSolver(ex.Cfg.SolverCmd, ex.Cfg.SolverTimeout)
	if err != nil {
		return nil, err
	}
	if d := os.Getenv("GOSMT_SOLVERLOG"); d != "" {
		f, _ := os.Create(fmt.Sprintf("%s/worker-%s-%d.smt2", d, ex.Entry.Name(), id))
		s.Log = f
	}
	return &Worker{ex: ex, id: id, prog: ex.Prog, solver: s, shared: map[*ssa.Global]*Value{}, sharedInit: map[*ssa.Package]bool{}}, nil
}

func (w *Worker) close() {
	ex := w.ex
	ex.mu.Lock()
	ex.SolverSat += w.solver.NSat
	ex.SolverUnsat += w.solver.NUnsat
	ex.SolverUnknown += w.solver.NUnknown
	ex.SolverTime += w.solver.Time
	for _, e := range w.solver.Errors {
		if len(ex.SolverErrors) < 20 {
			ex.SolverErrors = append(ex.SolverErrors, e)
		}
	}
	ex.mu.Unlock()
	w.solver.Close()
}

func (w *Worker) runPath(prefix []Decision, startModel map[string]uint64) *Path {
	p := &Path{w: w, prefix: prefix, pendingModel: startModel, nameCtr: map[string]int{}, extra: map[string]uint64{}, dom: map[string]domain{}, entangled: map[string]bool{}, svCache: map[int64]*svInfo{}, symByName: map[string]*smt.Term{},
		decided: map[int64]bool{}, hasDecided: map[int64]bool{}, Reached: map[string]bool{}, Findings: map[string]bool{}}
	w.path = p
	w.globals = map[*ssa.Global]*Value{}
	w.initDone = map[*ssa.Package]bool{}
	w.knownPanics = nil
	w.env = nil
	w.allowDeadlock = false
	w.timers = nil
	w.ptrIDs = nil
	w.out = nil
	w.floatText = map[int64]Str{}
	w.floatByText = map[string]*smt.Term{}
	w.sched = newSched(w)
	nerr := len(w.solver.Errors)
	if w.pathsRun > 0 && w.pathsRun%500 == 0 {
		// keep the solver process young (memory)
		w.solver.Restart()
	}
	w.pathsRun++
	w.solver.Push()
	s := w.sched
	main := s.startG("main", true, func(g *G) {
		if w.ex.Entry.Pkg != nil {
			w.ensureInit(w.ex.Entry.Pkg)
		}
		args := make([]Value, len(w.ex.Args))
		for i, a := range w.ex.Args {
			args[i] = intC(a)
		}
		w.callG(g, token.NoPos, w.ex.Entry, args)
		// end of path: all assertions discharged; keep a witness
		if p.Outcome == OutOK {
			if w.ex.wantWitness() || len(p.Findings) > 0 {
				if w.solver.Check() == smt.Sat {
					if m, ok := p.model(); ok {
						p.Witness = m
					}
				}
			}
		}
	})
	main.state = gRunning
	s.cur = main
	main.wake <- struct{}{}
	<-s.done
	s.aborting = true
	for _, g := range s.gs {
		select {
		case g.wake <- struct{}{}:
		default:
		}
	}
	s.hostWG.Wait()
	if w.solver.Depth() != 1 {
		// unbalanced scopes after an abort inside check(): restart to be safe
		w.solver.Restart()
	} else {
		w.solver.Pop()
	}
	if len(w.solver.Errors) > nerr {
		if p.Outcome == OutOK {
			p.Outcome = OutInconclusive
			p.Why = "solver error: " + w.solver.Errors[len(w.solver.Errors)-1]
		}
	}
	if p.unknowns > 0 && p.Outcome == OutOK {
		p.Outcome = OutInconclusive
		p.Why = "solver returned unknown on this path"
	}
	return p
}

func (ex *Explorer) wantWitness() bool {
	ex.mu.Lock()
	defer ex.mu.Unlock()
	return len(ex.Witnesses) < ex.Cfg.Witnesses
}

// ---------------------------------------------------------------- globals and package init

func isStdlib(p *ssa.Package) bool {
	path := p.Pkg.Path()
	return !strings.Contains(strings.SplitN(path, "/", 2)[0], ".")
}

func (w *Worker) global(g *ssa.Global) *Value {
	pkg := g.Pkg
	std := isStdlib(pkg) || !w.ex.perPath(pkg)
	if std {
		if c, ok := w.shared[g]; ok {
			return c
		}
	} else if c, ok := w.globals[g]; ok {
		return c
	}
	w.ensureInit(pkg)
	if std {
		if c, ok := w.shared[g]; ok {
			return c
		}
		c := new(Value)
		*c = zero(deref(g.Type()))
		// the standard streams exist (package os is not initialised by the engine): each is a
		// distinct stand-in file; what is written to it goes through (*os.File).Write, which a
		// harness replaces when it wants to see the terminal
		if pkg.Pkg.Path() == "os" && (g.Name() == "Stdout" || g.Name() == "Stderr" || g.Name() == "Stdin") {
			if pt, ok := deref(g.Type()).(*types.Pointer); ok {
				cell := new(Value)
				*cell = zero(pt.Elem())
				*c = cell
			}
		}
		w.shared[g] = c
		return c
	}
	if c, ok := w.globals[g]; ok {
		return c
	}
	c := new(Value)
	*c = zero(deref(g.Type()))
	w.globals[g] = c
	return c
}

// perPath: packages whose state is re-initialised for every path (the code
// under test and the harness runtime); everything else is initialised once
// per worker and must stay read-only afterwards.
func (ex *Explorer) perPath(p *ssa.Package) bool {
	path := p.Pkg.Path()
	return strings.HasPrefix(path, "github.com/mimecast/dtail")
}

func (w *Worker) allocGlobals(pkg *ssa.Package, into map[*ssa.Global]*Value) {
	names := make([]string, 0, len(pkg.Members))
	for n := range pkg.Members {
		names = append(names, n)
	}
	sort.Strings(names)
	for _, n := range names {
		if g, ok := pkg.Members[n].(*ssa.Global); ok {
			if _, ok := into[g]; !ok {
				c := new(Value)
				*c = zero(deref(g.Type()))
				if pkg.Pkg.Path() == "os" && (g.Name() == "Stdout" || g.Name() == "Stderr" || g.Name() == "Stdin") {
					if pt, ok := deref(g.Type()).(*types.Pointer); ok {
						cell := new(Value)
						*cell = zero(pt.Elem())
						*c = cell
					}
				}
				// os.ErrNotExist and its siblings are io/fs's values (os.IsNotExist compares with them)
				if pkg.Pkg.Path() == "os" && osErrAlias[g.Name()] {
					if fsPkg := w.ex.Prog.ImportedPackage("io/fs"); fsPkg != nil {
						if src, ok := fsPkg.Members[g.Name()].(*ssa.Global); ok {
							*c = *w.global(src)
						}
					}
				}
				into[g] = c
			}
		}
	}
}

var osErrAlias = map[string]bool{"ErrInvalid": true, "ErrPermission": true, "ErrExist": true, "ErrNotExist": true, "ErrClosed": true}

// ensureInit runs the package initialiser (and, through it, those of its
// imports that the engine may run).
func (w *Worker) ensureInit(pkg *ssa.Package) {
	std := isStdlib(pkg) || !w.ex.perPath(pkg)
	if std {
		if w.sharedInit[pkg] {
			return
		}
		w.sharedInit[pkg] = true
		w.allocGlobals(pkg, w.shared)
	} else {
		if w.initDone[pkg] {
			return
		}
		w.initDone[pkg] = true
		w.allocGlobals(pkg, w.globals)
	}
	if !w.ex.InitPkgs(pkg) {
		return
	}
	pkg.Build()
	initFn := pkg.Func("init")
	if initFn == nil {
		return
	}
	w.inInit++
	defer func() { w.inInit-- }()
	g := w.sched.cur
	bottom := &frame{w: w, g: g, fn: initFn}
	w.callSSA(bottom, token.NoPos, initFn, nil, nil)
}

var _ = types.Typ

// SolverCmd is the solver command line used by this run.
func SolverCmd() []string { return solverCmd() }

func solverCmd() []string {
	if v := os.Getenv("GOSMT_SOLVER"); v != "" {
		return strings.Fields(v)
	}
	if _, err := exec.LookPath("z3-new"); err == nil {
		return []string{"z3-new", "-in"} // z3 5.1.0: 5-40x faster than 4.8.12 on these incremental queries
	}
	return []string{"z3", "-in"}
}
