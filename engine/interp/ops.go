package interp

import (
	"fmt"
	"go/constant"
	"go/token"
	"go/types"
	"strings"
	"unicode/utf8"

	"gosmt/smt"

	"golang.org/x/tools/go/ssa"
)

func constantBool(c *ssa.Const) bool { return constant.BoolVal(c.Value) }
func constantString(c *ssa.Const) string {
	if c.Value.Kind() == constant.String {
		return constant.StringVal(c.Value)
	}
	return string(rune(c.Int64()))
}

const maxConcretize = 64

// concInt turns an int-like value into a concrete int64, forking if symbolic.
func (fr *frame) concInt(v Value, what string) int64 {
	t := v.(*smt.Term)
	if t.IsConst() {
		return t.SVal()
	}
	u := fr.w.path.concretize(t, fr.w.ex.Cfg.ConcretizeCap, what+" in "+fr.fn.String())
	return (&smt.Term{Op: smt.OConst, Sort: t.Sort, U: u}).SVal()
}

func intC(v int64) *smt.Term { return smt.BVC(64, uint64(v)) }

// ---------------------------------------------------------------- load/store

func (fr *frame) load(addr Value) Value {
	switch p := addr.(type) {
	case *Value:
		if p == nil {
			fr.rtPanic("invalid memory address or nil pointer dereference")
		}
		return copyVal(*p)
	case *SymPtr:
		// ite chain over the cells
		var res *smt.Term
		for i := len(p.Cells) - 1; i >= 0; i-- {
			c := p.Cells[i].(*smt.Term)
			if res == nil {
				res = c
			} else {
				res = smt.Ite(smt.Eq(p.Idx, smt.BVC(p.Idx.Sort.W, uint64(i))), c, res)
			}
		}
		return res
	}
	panic(engineError(fmt.Sprintf("load from %T", addr)))
}

func (fr *frame) store(addr Value, v Value) {
	switch p := addr.(type) {
	case *Value:
		if p == nil {
			fr.rtPanic("invalid memory address or nil pointer dereference")
		}
		assignInPlace(p, v)
	case *SymPtr:
		nv := v.(*smt.Term)
		for i := range p.Cells {
			old := p.Cells[i].(*smt.Term)
			p.Cells[i] = smt.Ite(smt.Eq(p.Idx, smt.BVC(p.Idx.Sort.W, uint64(i))), nv, old)
		}
	default:
		panic(engineError(fmt.Sprintf("store to %T", addr)))
	}
}

// ---------------------------------------------------------------- unop

func (fr *frame) unop(instr *ssa.UnOp, x Value) Value {
	switch instr.Op {
	case token.ARROW:
		v, ok := fr.w.chanRecv(fr, x.(*Chan))
		if instr.CommaOk {
			return Tuple{v, smt.BoolC(ok)}
		}
		return v
	case token.MUL:
		// a section that holds only read locks runs concurrently with other such sections:
		// every memory read in it is a point where another goroutine may run (delay-bounded,
		// with delay_preempt); sections under an exclusive lock and unsynchronised code are not split
		if fr.g != nil && fr.g.rlocks > 0 && fr.g.xlocks == 0 {
			v := fr.load(x)
			fr.w.sched.pointAny(fr.g) // after the read: what was read may be stale when it is used
			return v
		}
		return fr.load(x)
	case token.NOT:
		return smt.Not(x.(*smt.Term))
	case token.SUB:
		t := x.(*smt.Term)
		if t.Sort.K == smt.SFP {
			return smt.FNeg(t)
		}
		return smt.Neg(t)
	case token.XOR:
		return smt.BNot(x.(*smt.Term))
	}
	panic(engineError(fmt.Sprintf("invalid unary op %s", instr.Op)))
}

// ---------------------------------------------------------------- binop

func isSigned(t types.Type) bool {
	b, ok := t.Underlying().(*types.Basic)
	return ok && b.Info()&types.IsInteger != 0 && b.Info()&types.IsUnsigned == 0
}

func (fr *frame) binop(op token.Token, t types.Type, x, y Value, yt types.Type) Value {
	switch op {
	case token.EQL:
		return fr.eq(t, x, y)
	case token.NEQ:
		return smt.Not(fr.eq(t, x, y))
	}
	if xs, ok := x.(Str); ok {
		ys := y.(Str)
		switch op {
		case token.ADD:
			return ConcatStr(xs, ys)
		case token.LSS:
			return strLess(xs, ys, false)
		case token.LEQ:
			return strLess(xs, ys, true)
		case token.GTR:
			return strLess(ys, xs, false)
		case token.GEQ:
			return strLess(ys, xs, true)
		}
		panic(engineError(fmt.Sprintf("string binop %s", op)))
	}
	a := x.(*smt.Term)
	b := y.(*smt.Term)
	if a.Sort.K == smt.SFP {
		switch op {
		case token.ADD:
			return smt.FAdd(a, b)
		case token.SUB:
			return smt.FSub(a, b)
		case token.MUL:
			return smt.FMul(a, b)
		case token.QUO:
			return smt.FDiv(a, b)
		case token.LSS:
			return smt.FLt(a, b)
		case token.LEQ:
			return smt.FLe(a, b)
		case token.GTR:
			return smt.FLt(b, a)
		case token.GEQ:
			return smt.FLe(b, a)
		}
		panic(engineError(fmt.Sprintf("float binop %s", op)))
	}
	if a.Sort.K == smt.SBool {
		switch op {
		case token.AND, token.LAND:
			return smt.And(a, b)
		case token.OR, token.LOR:
			return smt.Or(a, b)
		}
		panic(engineError(fmt.Sprintf("bool binop %s", op)))
	}
	signed := isSigned(t)
	switch op {
	case token.ADD:
		return smt.Add(a, b)
	case token.SUB:
		return smt.Sub(a, b)
	case token.MUL:
		return smt.Mul(a, b)
	case token.QUO, token.REM:
		zero := smt.BVC(b.Sort.W, 0)
		if fr.w.path.branch(smt.Eq(b, zero)) {
			fr.rtPanic("integer divide by zero")
		}
		if op == token.QUO {
			if signed {
				return smt.SDiv(a, b)
			}
			return smt.UDiv(a, b)
		}
		if signed {
			return smt.SRem(a, b)
		}
		return smt.URem(a, b)
	case token.AND:
		return smt.BAnd(a, b)
	case token.OR:
		return smt.BOr(a, b)
	case token.XOR:
		return smt.BXor(a, b)
	case token.AND_NOT:
		return smt.BAnd(a, smt.BNot(b))
	case token.SHL, token.SHR:
		// shift count may have another width/signedness
		w := a.Sort.W
		if isSigned(yt) {
			if fr.w.path.branch(smt.SLt(b, smt.BVC(b.Sort.W, 0))) {
				fr.rtPanic("negative shift amount")
			}
		}
		var cnt *smt.Term
		var big *smt.Term = smt.False
		if b.Sort.W > w {
			big = smt.ULe(smt.BVC(b.Sort.W, uint64(w)), b)
			cnt = smt.Extract(b, w-1, 0)
		} else {
			cnt = smt.ZExt(b, w)
		}
		var r *smt.Term
		if op == token.SHL {
			r = smt.Shl(a, cnt)
			return smt.Ite(big, smt.BVC(w, 0), r)
		}
		if signed {
			r = smt.AShr(a, cnt)
			return smt.Ite(big, smt.AShr(a, smt.BVC(w, uint64(w-1))), r)
		}
		r = smt.LShr(a, cnt)
		return smt.Ite(big, smt.BVC(w, 0), r)
	case token.LSS:
		if signed {
			return smt.SLt(a, b)
		}
		return smt.ULt(a, b)
	case token.LEQ:
		if signed {
			return smt.SLe(a, b)
		}
		return smt.ULe(a, b)
	case token.GTR:
		if signed {
			return smt.SLt(b, a)
		}
		return smt.ULt(b, a)
	case token.GEQ:
		if signed {
			return smt.SLe(b, a)
		}
		return smt.ULe(b, a)
	}
	panic(engineError(fmt.Sprintf("invalid binary op %s", op)))
}

// strLess builds the lexicographic comparison of two strings (concrete lengths).
func strLess(a, b Str, orEq bool) *smt.Term {
	if a.IsConcrete() && b.IsConcrete() {
		if orEq {
			return smt.BoolC(a.S <= b.S)
		}
		return smt.BoolC(a.S < b.S)
	}
	n := a.Len()
	if b.Len() < n {
		n = b.Len()
	}
	// tail: all common bytes equal -> decided by length
	var res *smt.Term
	if orEq {
		res = smt.BoolC(a.Len() <= b.Len())
	} else {
		res = smt.BoolC(a.Len() < b.Len())
	}
	for i := n - 1; i >= 0; i-- {
		x, y := a.At(i), b.At(i)
		res = smt.Ite(smt.ULt(x, y), smt.True, smt.Ite(smt.ULt(y, x), smt.False, res))
	}
	return res
}

func strEq(a, b Str) *smt.Term {
	if a.Len() != b.Len() {
		return smt.False
	}
	if a.IsConcrete() && b.IsConcrete() {
		return smt.BoolC(a.S == b.S)
	}
	res := smt.True
	for i := 0; i < a.Len(); i++ {
		res = smt.And(res, smt.Eq(a.At(i), b.At(i)))
		if c, ok := res.ConstBool(); ok && !c {
			return smt.False
		}
	}
	return res
}

// eq implements == for comparable values.
func (fr *frame) eq(t types.Type, x, y Value) *smt.Term {
	switch x := x.(type) {
	case *smt.Term:
		yt := y.(*smt.Term)
		if x.Sort.K == smt.SFP {
			return smt.FEq(x, yt)
		}
		return smt.Eq(x, yt)
	case Str:
		return strEq(x, y.(Str))
	case *Value:
		switch yv := y.(type) {
		case *Value:
			return smt.BoolC(x == yv)
		case *SymPtr:
			return smt.False
		}
		return smt.BoolC(false)
	case *SymPtr:
		panic(engineError("comparison of symbolic element pointers"))
	case *Chan:
		return smt.BoolC(x == y.(*Chan))
	case *Map:
		return smt.BoolC(x == y.(*Map)) // only nil comparisons are legal
	case []Value:
		yv, _ := y.([]Value)
		return smt.BoolC(x == nil && yv == nil) // only comparisons with nil are legal
	case Struct:
		ys := y.(Struct)
		st := t.Underlying().(*types.Struct)
		res := smt.True
		for i := range x {
			if st.Field(i).Name() == "_" {
				continue
			}
			res = smt.And(res, fr.eq(st.Field(i).Type(), x[i], ys[i]))
		}
		return res
	case Array:
		ya := y.(Array)
		et := t.Underlying().(*types.Array).Elem()
		res := smt.True
		for i := range x {
			res = smt.And(res, fr.eq(et, x[i], ya[i]))
		}
		return res
	case Iface:
		yi := y.(Iface)
		if x.T == nil || yi.T == nil {
			return smt.BoolC(x.T == nil && yi.T == nil)
		}
		if !types.Identical(x.T, yi.T) {
			return smt.False
		}
		if !types.Comparable(x.T) {
			fr.rtPanic("comparing uncomparable type " + x.T.String())
		}
		return fr.eq(x.T, x.V, yi.V)
	case *ssa.Function, *Closure, *ssa.Builtin:
		return smt.BoolC(isNilFunc(x) && isNilFunc(y))
	case nil:
		return smt.BoolC(y == nil || isNilFunc(y))
	}
	panic(engineError(fmt.Sprintf("eq: unexpected %T", x)))
}

// ---------------------------------------------------------------- conversions

func (fr *frame) conv(tdst, tsrc types.Type, x Value) Value {
	ud := tdst.Underlying()
	us := tsrc.Underlying()
	switch ud := ud.(type) {
	case *types.Pointer, *types.Signature, *types.Chan, *types.Map, *types.Struct, *types.Array, *types.Interface:
		return x
	case *types.Slice:
		// string -> []byte / []rune
		if s, ok := x.(Str); ok {
			eb := ud.Elem().Underlying().(*types.Basic)
			if eb.Kind() == types.Uint8 {
				ts := s.Terms()
				out := make([]Value, len(ts))
				for i, t := range ts {
					out[i] = t
				}
				return out
			}
			// []rune
			rs := fr.decodeRunes(s)
			out := make([]Value, len(rs))
			for i, r := range rs {
				out[i] = r
			}
			return out
		}
		return x
	case *types.Basic:
		if ud.Kind() == types.UnsafePointer {
			return x
		}
		if ud.Info()&types.IsString != 0 {
			switch v := x.(type) {
			case Str:
				return v
			case []Value:
				// []byte or []rune
				eb := us.(*types.Slice).Elem().Underlying().(*types.Basic)
				if eb.Kind() == types.Uint8 {
					ts := make([]*smt.Term, len(v))
					for i, e := range v {
						ts[i] = e.(*smt.Term)
					}
					return MkStr(ts)
				}
				var buf []byte
				for _, e := range v {
					r := fr.concInt(e, "rune to string")
					buf = utf8.AppendRune(buf, rune(r))
				}
				return Str{S: string(buf)}
			case *smt.Term:
				// integer -> string (rune)
				r := fr.concInt(v, "int to string")
				return Str{S: string(rune(r))}
			}
		}
		t, ok := x.(*smt.Term)
		if !ok {
			if _, isPtr := x.(*Value); isPtr && ud.Kind() == types.Uintptr {
				{
					var names []string
					for f := fr; f != nil && len(names) < 14; f = f.caller {
						names = append(names, f.fn.Name())
					}
					panic(engineError("pointer to uintptr conversion (a system call): " + strings.Join(names, " < ")))
				}
			}
			panic(engineError(fmt.Sprintf("conv %v -> %v of %T", tsrc, tdst, x)))
		}
		sb, _ := us.(*types.Basic)
		if ud.Info()&types.IsInteger != 0 {
			w, _ := intWidth(ud)
			if t.Sort.K == smt.SFP {
				if ud.Info()&types.IsUnsigned != 0 {
					return smt.FPToUI(t, w)
				}
				return smt.FPToSI(t, w)
			}
			if w <= t.Sort.W {
				return smt.Extract(t, w-1, 0)
			}
			if sb != nil && sb.Info()&types.IsUnsigned == 0 {
				return smt.SExt(t, w)
			}
			return smt.ZExt(t, w)
		}
		if ud.Info()&types.IsFloat != 0 {
			if t.Sort.K == smt.SFP {
				return t
			}
			if sb != nil && sb.Info()&types.IsUnsigned != 0 {
				return smt.UIToFP(t)
			}
			return smt.SIToFP(t)
		}
		if ud.Info()&types.IsBoolean != 0 {
			return t
		}
	}
	panic(engineError(fmt.Sprintf("unsupported conversion %v -> %v", tsrc, tdst)))
}

// decodeRunes decodes a string into rune terms; symbolic bytes must be ASCII
// (a non-ASCII symbolic byte is concretised).
func (fr *frame) decodeRunes(s Str) []*smt.Term {
	var out []*smt.Term
	i := 0
	n := s.Len()
	for i < n {
		r, size := fr.decodeRuneAt(s, i)
		out = append(out, r)
		i += size
	}
	return out
}

// decodeRuneAt returns the rune starting at byte i as an int32 term and its size.
func (fr *frame) decodeRuneAt(s Str, i int) (*smt.Term, int) {
	b := s.At(i)
	if !b.IsConst() {
		if fr.w.path.branch(smt.ULt(b, smt.BVC(8, 0x80))) {
			return smt.ZExt(b, 32), 1
		}
		// concretise the bytes of this (possibly multi-byte) sequence
		fr.w.ex.noteOnce("non-ASCII symbolic byte concretised for UTF-8 decoding")
	}
	var buf [4]byte
	k := 0
	for j := i; j < s.Len() && k < 4; j++ {
		bt := s.At(j)
		if !bt.IsConst() {
			if k == 0 || true {
				u := fr.w.path.concretize(bt, 256, "utf8 byte")
				buf[k] = byte(u)
			}
		} else {
			buf[k] = byte(bt.U)
		}
		k++
		if utf8.FullRune(buf[:k]) {
			break
		}
	}
	r, size := utf8.DecodeRune(buf[:k])
	return smt.BVC(32, uint64(uint32(r))), size
}

// ---------------------------------------------------------------- slicing / indexing

func (fr *frame) slice(instr *ssa.Slice, x, lo, hi, max Value) Value {
	var l, c int
	switch x := x.(type) {
	case Str:
		l = x.Len()
		c = l
	case []Value:
		l = len(x)
		c = cap(x)
	case *Value:
		if x == nil {
			fr.rtPanic("invalid memory address or nil pointer dereference (slice of nil array pointer)")
		}
		a := (*x).(Array)
		l = len(a)
		c = l
	default:
		panic(engineError(fmt.Sprintf("slice of %T", x)))
	}
	L, H, M := int64(0), int64(l), int64(c)
	if lo != nil {
		L = fr.concInt(lo, "slice low")
	}
	if hi != nil {
		H = fr.concInt(hi, "slice high")
	}
	if max != nil {
		M = fr.concInt(max, "slice max")
	}
	switch x := x.(type) {
	case Str:
		if L < 0 || H < L || H > int64(l) {
			fr.rtPanic(fmt.Sprintf("slice bounds out of range [%d:%d] with length %d", L, H, l))
		}
		return x.Slice(int(L), int(H))
	case []Value:
		if L < 0 || H < L || M < H || M > int64(c) {
			fr.rtPanic(fmt.Sprintf("slice bounds out of range [%d:%d:%d] with capacity %d", L, H, M, c))
		}
		if x == nil {
			return x
		}
		return x[L:H:M]
	case *Value:
		a := []Value((*x).(Array))
		if L < 0 || H < L || M < H || M > int64(c) {
			fr.rtPanic(fmt.Sprintf("slice bounds out of range [%d:%d:%d] with capacity %d", L, H, M, c))
		}
		return a[L:H:M]
	}
	panic("unreachable")
}

// boundsCheck forks on idx in [0,n); returns a concrete index if idx is constant, else -1.
func (fr *frame) boundsCheck(idx *smt.Term, it types.Type, n int) int {
	w := idx.Sort.W
	if idx.IsConst() {
		var v int64
		if isSigned(it) {
			v = idx.SVal()
		} else {
			if idx.U > uint64(1<<62) {
				v = -1
			} else {
				v = int64(idx.U)
			}
		}
		if v < 0 || v >= int64(n) {
			fr.rtPanic(fmt.Sprintf("index out of range [%d] with length %d", v, n))
		}
		return int(v)
	}
	if w < 64 && uint64(n) > (uint64(1)<<uint(w))-1 && !isSigned(it) {
		return -1 // every value of the index type is in range
	}
	inb := smt.ULt(idx, smt.BVC(w, uint64(n))) // unsigned compare covers negatives
	if w < 64 && isSigned(it) && uint64(n) > (uint64(1)<<uint(w-1))-1 {
		inb = smt.SLe(smt.BVC(w, 0), idx)
	}
	if !fr.w.path.branch(inb) {
		fr.rtPanic(fmt.Sprintf("index out of range [symbolic] with length %d", n))
	}
	return -1
}

func scalarCells(cells []Value) bool {
	for _, c := range cells {
		if _, ok := c.(*smt.Term); !ok {
			return false
		}
	}
	return true
}

func (fr *frame) indexAddr(x Value, idx *smt.Term, it types.Type) Value {
	var cells []Value
	switch x := x.(type) {
	case []Value:
		cells = x
	case *Value:
		if x == nil {
			fr.rtPanic("invalid memory address or nil pointer dereference")
		}
		cells = []Value((*x).(Array))
	default:
		panic(engineError(fmt.Sprintf("IndexAddr on %T", x)))
	}
	i := fr.boundsCheck(idx, it, len(cells))
	if i >= 0 {
		return &cells[i]
	}
	if len(cells) == 1 {
		return &cells[0]
	}
	if scalarCells(cells) && len(cells) <= 1024 {
		return &SymPtr{Cells: cells, Idx: idx}
	}
	v := fr.w.path.concretize(idx, fr.w.ex.Cfg.ConcretizeCap, "index into non-scalar slice")
	return &cells[int(v)]
}

func (fr *frame) index(x Value, idx *smt.Term, it types.Type) Value {
	switch x := x.(type) {
	case Array:
		i := fr.boundsCheck(idx, it, len(x))
		if i >= 0 {
			return x[i]
		}
		if scalarCells(x) {
			return fr.load(&SymPtr{Cells: x, Idx: idx})
		}
		v := fr.w.path.concretize(idx, fr.w.ex.Cfg.ConcretizeCap, "index into non-scalar array")
		return x[int(v)]
	case Str:
		i := fr.boundsCheck(idx, it, x.Len())
		if i >= 0 {
			return x.At(i)
		}
		ts := x.Terms()
		res := ts[len(ts)-1]
		for j := len(ts) - 2; j >= 0; j-- {
			res = smt.Ite(smt.Eq(idx, smt.BVC(idx.Sort.W, uint64(j))), ts[j], res)
		}
		return res
	}
	panic(engineError(fmt.Sprintf("Index on %T", x)))
}

// ---------------------------------------------------------------- maps

// mapFind returns the position of key in m or -1 (forking on symbolic equalities).
func (fr *frame) mapFind(m *Map, key Value) int {
	if m == nil {
		return -1
	}
	if ck, ok := concreteKey(key); ok {
		if i, ok := m.index[ck]; ok {
			return i
		}
		// compare against symbolic keys only
		for i, k := range m.Keys {
			if _, conc := concreteKey(k); conc {
				continue
			}
			if fr.w.path.branch(fr.eq(m.KeyT, k, key)) {
				return i
			}
		}
		return -1
	}
	for i, k := range m.Keys {
		if fr.w.path.branch(fr.eq(m.KeyT, k, key)) {
			return i
		}
	}
	return -1
}

// concurrentIteration: another goroutine is in the middle of a range loop over m
func (fr *frame) concurrentIteration(m *Map) {
	for _, it := range m.iters {
		if it.live() && it.g != nil && fr.g != nil && it.g != fr.g && it.i > 0 {
			fr.w.fatal(fr, "fatal error: concurrent map iteration and map write")
		}
	}
}

func (fr *frame) mapUpdate(m *Map, key, val Value) {
	fr.concurrentIteration(m)
	i := fr.mapFind(m, key)
	if i >= 0 {
		m.Vals[i] = copyVal(val)
		return
	}
	m.Keys = append(m.Keys, copyVal(key))
	m.Vals = append(m.Vals, copyVal(val))
	if ck, ok := concreteKey(key); ok {
		m.index[ck] = len(m.Keys) - 1
	}
	m.n++
}

func (fr *frame) mapDelete(m *Map, key Value) {
	fr.concurrentIteration(m)
	i := fr.mapFind(m, key)
	if i < 0 {
		return
	}
	m.Keys = append(m.Keys[:i:i], m.Keys[i+1:]...)
	m.Vals = append(m.Vals[:i:i], m.Vals[i+1:]...)
	m.index = map[string]int{}
	for j, k := range m.Keys {
		if ck, ok := concreteKey(k); ok {
			m.index[ck] = j
		}
	}
	m.n--
}

func (fr *frame) lookup(instr *ssa.Lookup, x, idx Value) Value {
	switch x := x.(type) {
	case *Map:
		var v Value
		ok := false
		i := fr.mapFind(x, idx)
		if i >= 0 {
			v = copyVal(x.Vals[i])
			ok = true
		} else {
			v = zero(instr.X.Type().Underlying().(*types.Map).Elem())
		}
		if instr.CommaOk {
			return Tuple{v, smt.BoolC(ok)}
		}
		return v
	case Str:
		return fr.index(x, idx.(*smt.Term), instr.Index.Type())
	}
	panic(engineError(fmt.Sprintf("lookup in %T", x)))
}

// ---------------------------------------------------------------- iteration

type iter interface {
	next(fr *frame) Tuple
}

type stringIter struct {
	s Str
	i int
}

func (it *stringIter) next(fr *frame) Tuple {
	if it.i >= it.s.Len() {
		return Tuple{smt.False, intC(0), smt.BVC(32, 0)}
	}
	r, size := fr.decodeRuneAt(it.s, it.i)
	pos := it.i
	it.i += size
	return Tuple{smt.True, intC(int64(pos)), r}
}

type mapIter struct {
	m     *Map
	keys  []Value
	order []int
	i     int
	g     *G     // the goroutine iterating
	owner *frame // the function whose range loop this is
	done  bool
}

// live: the range loop this iterator belongs to may still be running
func (it *mapIter) live() bool { return !it.done && it.owner != nil && !it.owner.returned }

func (it *mapIter) next(fr *frame) Tuple {
	// every step of a map iteration is a point where another goroutine may run (with
	// delay_preempt): the Go runtime detects a write that lands in between as a fatal
	// "concurrent map iteration and map write"; so does mapUpdate/mapDelete below
	if it.m != nil && fr.g != nil && it.i > 0 && it.i < len(it.order) {
		fr.w.sched.pointAny(fr.g)
	}
	if it.i >= len(it.order) {
		it.done = true
	}
	for it.i < len(it.order) {
		k := it.keys[it.order[it.i]]
		it.i++
		// entry may have been deleted meanwhile
		j := -1
		if ck, ok := concreteKey(k); ok {
			if p, ok := it.m.index[ck]; ok {
				j = p
			}
		} else {
			for p, kk := range it.m.Keys {
				if sameValue(kk, k) {
					j = p
					break
				}
			}
		}
		if j < 0 {
			continue
		}
		return Tuple{smt.True, copyVal(k), copyVal(it.m.Vals[j])}
	}
	return Tuple{smt.False, nil, nil}
}

// sameValue: identity of stored key objects (used for symbolic keys in iteration)
func sameValue(a, b Value) bool {
	switch a := a.(type) {
	case *smt.Term:
		bt, ok := b.(*smt.Term)
		return ok && a == bt
	case Str:
		bs, ok := b.(Str)
		if !ok || a.Len() != bs.Len() {
			return false
		}
		for i := 0; i < a.Len(); i++ {
			x, y := a.At(i), bs.At(i)
			if x.IsConst() && y.IsConst() {
				if x.U != y.U {
					return false
				}
			} else if x != y {
				return false
			}
		}
		return true
	}
	return false
}

func (fr *frame) rangeIter(x Value, t types.Type) iter {
	switch x := x.(type) {
	case *Map:
		it := &mapIter{m: x, g: fr.g, owner: fr}
		if x == nil {
			return it
		}
		// forget dead iterators, remember this one
		live := x.iters[:0]
		for _, o := range x.iters {
			if o.live() {
				live = append(live, o)
			}
		}
		x.iters = append(live, it)
		it.keys = append([]Value{}, x.Keys...)
		n := len(it.keys)
		it.order = make([]int, n)
		for i := range it.order {
			it.order[i] = i
		}
		if fr.w.ex.Cfg.SymMapOrder && n > 1 {
			// symbolic permutation: choose each position in turn
			rest := append([]int{}, it.order...)
			for i := 0; i < n; i++ {
				c := fr.w.path.choose(len(rest))
				it.order[i] = rest[c]
				rest = append(rest[:c:c], rest[c+1:]...)
			}
		}
		return it
	case Str:
		return &stringIter{s: x}
	}
	panic(engineError(fmt.Sprintf("cannot range over %T", x)))
}

// ---------------------------------------------------------------- type assertions

func (fr *frame) typeAssert(instr *ssa.TypeAssert, itf Iface) Value {
	var v Value
	err := ""
	if idst, ok := instr.AssertedType.Underlying().(*types.Interface); ok {
		v = itf
		if itf.T == nil {
			err = fmt.Sprintf("interface conversion: interface is nil, not %s", instr.AssertedType)
		} else if meth, _ := types.MissingMethod(itf.T, idst, true); meth != nil {
			err = fmt.Sprintf("interface conversion: %v is not %v: missing method %s", itf.T, idst, meth.Name())
		}
	} else {
		v = itf.V
		if itf.T == nil {
			err = fmt.Sprintf("interface conversion: interface is nil, not %s", instr.AssertedType)
		} else if !types.Identical(itf.T, instr.AssertedType) {
			err = fmt.Sprintf("interface conversion: interface is %s, not %s", itf.T, instr.AssertedType)
		}
	}
	if err != "" {
		if !instr.CommaOk {
			fr.rtPanic(err)
		}
		return Tuple{zero(instr.AssertedType), smt.False}
	}
	if instr.CommaOk {
		return Tuple{v, smt.True}
	}
	return v
}

// ---------------------------------------------------------------- builtins

func (w *Worker) callBuiltin(caller *frame, callpos token.Pos, fn *ssa.Builtin, args []Value) Value {
	fr := caller
	switch fn.Name() {
	case "append":
		if len(args) == 1 {
			return args[0]
		}
		dst := args[0].([]Value)
		var src []Value
		switch s := args[1].(type) {
		case []Value:
			src = s
		case Str:
			for _, t := range s.Terms() {
				src = append(src, t)
			}
		}
		if len(src) == 0 {
			return dst
		}
		// copy struct/array elements (value semantics)
		if len(dst)+len(src) <= cap(dst) {
			n := len(dst)
			dst = dst[:n+len(src)]
			for i, e := range src {
				dst[n+i] = copyVal(e)
			}
			return dst
		}
		// grow exactly as the Go runtime does (runtime.growslice of go 1.23: doubling below
		// 256 elements, then +25%+192, rounded up to the allocator's size classes)
		elemSize := int64(8)
		if st, ok := fn.Type().(*types.Signature); ok && st.Params().Len() > 0 {
			if sl, ok := st.Params().At(0).Type().Underlying().(*types.Slice); ok {
				elemSize = goSizes.Sizeof(sl.Elem())
			}
		}
		nc := growCap(cap(dst), len(dst)+len(src), elemSize)
		nd := make([]Value, len(dst), nc)
		copy(nd, dst)
		for _, e := range src {
			nd = append(nd, copyVal(e))
		}
		// zero-fill spare capacity lazily: cells beyond len are never read without reslicing;
		// give them the element zero value to keep the invariant "every cell holds a value".
		if st, ok := fn.Type().(*types.Signature); ok && st.Params().Len() > 0 {
			if sl, ok := st.Params().At(0).Type().Underlying().(*types.Slice); ok {
				full := nd[:cap(nd)]
				fillZero(full[len(nd):], sl.Elem())
			}
		}
		return nd
	case "copy":
		dst := args[0].([]Value)
		switch s := args[1].(type) {
		case []Value:
			n := len(s)
			if len(dst) < n {
				n = len(dst)
			}
			tmp := make([]Value, n)
			for i := 0; i < n; i++ {
				tmp[i] = copyVal(s[i])
			}
			copy(dst, tmp)
			return intC(int64(n))
		case Str:
			n := s.Len()
			if len(dst) < n {
				n = len(dst)
			}
			for i := 0; i < n; i++ {
				dst[i] = s.At(i)
			}
			return intC(int64(n))
		}
	case "close":
		w.chanClose(fr, args[0].(*Chan))
		return nil
	case "delete":
		m := args[0].(*Map)
		if m != nil {
			fr.mapDelete(m, args[1])
		}
		return nil
	case "clear":
		switch x := args[0].(type) {
		case *Map:
			if x != nil {
				x.Keys, x.Vals, x.index, x.n = nil, nil, map[string]int{}, 0
			}
		case []Value:
			if len(x) > 0 {
				sig, _ := fn.Type().(*types.Signature)
				var et types.Type
				if sig != nil && sig.Params().Len() > 0 {
					if sl, ok := sig.Params().At(0).Type().Underlying().(*types.Slice); ok {
						et = sl.Elem()
					}
				}
				if et == nil {
					panic(engineError("clear of slice: unknown element type"))
				}
				fillZero(x, et)
			}
		}
		return nil
	case "print", "println":
		return nil
	case "len":
		switch x := args[0].(type) {
		case Str:
			return intC(int64(x.Len()))
		case Array:
			return intC(int64(len(x)))
		case *Value:
			if x == nil {
				return intC(0)
			}
			return intC(int64(len((*x).(Array))))
		case []Value:
			return intC(int64(len(x)))
		case *Map:
			if x == nil {
				return intC(0)
			}
			return intC(int64(x.Len()))
		case *Chan:
			if x == nil {
				return intC(0)
			}
			return intC(int64(len(x.buf)))
		}
		panic(engineError(fmt.Sprintf("len of %T", args[0])))
	case "cap":
		switch x := args[0].(type) {
		case Array:
			return intC(int64(len(x)))
		case *Value:
			if x == nil {
				return intC(0)
			}
			return intC(int64(len((*x).(Array))))
		case []Value:
			return intC(int64(cap(x)))
		case *Chan:
			if x == nil {
				return intC(0)
			}
			return intC(int64(x.cap))
		}
		panic(engineError(fmt.Sprintf("cap of %T", args[0])))
	case "min", "max":
		res := args[0]
		t := fn.Type().(*types.Signature).Params().At(0).Type()
		for _, a := range args[1:] {
			var lt *smt.Term
			if fn.Name() == "min" {
				lt = fr.binop(token.LSS, t, a, res, t).(*smt.Term)
			} else {
				lt = fr.binop(token.GTR, t, a, res, t).(*smt.Term)
			}
			if rt, ok := res.(*smt.Term); ok {
				res = smt.Ite(lt, a.(*smt.Term), rt)
			} else if w.path.branch(lt) {
				res = a
			}
		}
		return res
	case "panic":
		panic(targetPanic{v: args[0], msg: w.panicString(fr, args[0]), stack: fr.stack()})
	case "recover":
		return fr.doRecover()
	case "SliceData":
		sl, _ := args[0].([]Value)
		return &DataPtr{Cells: sl}
	case "StringData":
		st := args[0].(Str)
		cells := make([]Value, st.Len())
		for i, t := range st.Terms() {
			cells[i] = t
		}
		return &DataPtr{Cells: cells}
	case "String":
		dp, _ := args[0].(*DataPtr)
		n := int(fr.concInt(args[1], "unsafe.String len"))
		if dp == nil || n == 0 {
			return Str{}
		}
		return MkStr(bytesOf(dp.Cells[:n]))
	case "Slice":
		dp, _ := args[0].(*DataPtr)
		n := int(fr.concInt(args[1], "unsafe.Slice len"))
		if dp == nil {
			return []Value(nil)
		}
		return dp.Cells[:n:n]
	case "ssa:deferstack":
		return &fr.defers
	case "ssa:wrapnilchk":
		recv := args[0]
		if p, ok := recv.(*Value); ok && p == nil {
			fr.rtPanic("value method called using nil pointer")
		}
		return recv
	}
	panic(engineError("unknown built-in: " + fn.Name()))
}

// assignInPlace stores v into *dst keeping the identity of struct fields and
// array elements (pointers to them taken earlier stay valid, as in real memory).
func assignInPlace(dst *Value, v Value) {
	switch nv := v.(type) {
	case Struct:
		if old, ok := (*dst).(Struct); ok && len(old) == len(nv) {
			for i := range nv {
				assignInPlace(&old[i], nv[i])
			}
			return
		}
	case Array:
		if old, ok := (*dst).(Array); ok && len(old) == len(nv) {
			for i := range nv {
				assignInPlace(&old[i], nv[i])
			}
			return
		}
	}
	*dst = copyVal(v)
}


var goSizes = types.SizesFor("gc", "amd64")

var sizeClasses = []int64{0, 8, 16, 24, 32, 48, 64, 80, 96, 112, 128, 144, 160, 176, 192, 208, 224, 240, 256, 288, 320, 352, 384, 416, 448, 480, 512, 576, 640, 704, 768, 896, 1024, 1152, 1280, 1408, 1536, 1792, 2048, 2304, 2688, 3072, 3200, 3456, 4096, 4864, 5376, 6144, 6528, 6784, 6912, 8192, 9472, 9728, 10240, 10880, 12288, 13568, 14336, 16384, 18432, 19072, 20480, 21760, 24576, 27264, 28672, 32768}

// roundUpSize: runtime.roundupsize (small sizes to their size class, large ones to pages).
func roundUpSize(size int64) int64 {
	if size <= 32768 {
		for _, c := range sizeClasses {
			if c >= size {
				return c
			}
		}
	}
	const page = 8192
	return (size + page - 1) / page * page
}

// growCap: the capacity runtime.growslice gives a slice of oldCap elements that must hold newLen.
func growCap(oldCap, newLen int, elemSize int64) int {
	newcap := oldCap
	doublecap := newcap + newcap
	if newLen > doublecap {
		newcap = newLen
	} else {
		const threshold = 256
		if oldCap < threshold {
			newcap = doublecap
		} else {
			for 0 < newcap && newcap < newLen {
				newcap += (newcap + 3*threshold) >> 2
			}
			if newcap <= 0 {
				newcap = newLen
			}
		}
	}
	if elemSize <= 0 {
		return newcap
	}
	mem := roundUpSize(int64(newcap) * elemSize)
	return int(mem / elemSize)
}
