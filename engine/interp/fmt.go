package interp

import (
	"fmt"
	"go/types"
	"strconv"
	"strings"

	"gosmt/smt"

	"golang.org/x/tools/go/ssa"
)

// Formatting model for fmt.Sprintf & co. Output is a Str whose bytes may be
// symbolic (for %s/%v of symbolic strings); symbolic integers are concretised.

type fmtOut struct{ ts []*smt.Term }

func (o *fmtOut) str(s string) {
	for i := 0; i < len(s); i++ {
		o.ts = append(o.ts, smt.BVC(8, uint64(s[i])))
	}
}
func (o *fmtOut) add(s Str) { o.ts = append(o.ts, s.Terms()...) }

func (w *Worker) sprintf(fr *frame, format string, args []Value) Str {
	var o fmtOut
	ai := 0
	for i := 0; i < len(format); i++ {
		c := format[i]
		if c != '%' {
			o.ts = append(o.ts, smt.BVC(8, uint64(c)))
			continue
		}
		i++
		if i >= len(format) {
			o.str("%!(NOVERB)")
			break
		}
		// flags, width, precision
		j := i
		for j < len(format) && strings.IndexByte("+-# 0", format[j]) >= 0 {
			j++
		}
		flags := format[i:j]
		k := j
		for k < len(format) && format[k] >= '0' && format[k] <= '9' {
			k++
		}
		width := 0
		if k > j {
			width, _ = strconv.Atoi(format[j:k])
		}
		prec := -1
		if k < len(format) && format[k] == '.' {
			k++
			p0 := k
			for k < len(format) && format[k] >= '0' && format[k] <= '9' {
				k++
			}
			prec, _ = strconv.Atoi(format[p0:k])
		}
		if k >= len(format) {
			o.str("%!(NOVERB)")
			break
		}
		verb := format[k]
		i = k
		if verb == '%' {
			o.str("%")
			continue
		}
		if ai >= len(args) {
			o.str("%!" + string(verb) + "(MISSING)")
			continue
		}
		arg := args[ai].(Iface)
		ai++
		var piece fmtOut
		w.fmtArg(fr, &piece, verb, flags, prec, arg)
		// width padding (concrete length)
		if width > len(piece.ts) {
			pad := width - len(piece.ts)
			padc := " "
			if strings.Contains(flags, "0") && !strings.Contains(flags, "-") {
				padc = "0"
			}
			if strings.Contains(flags, "-") {
				o.ts = append(o.ts, piece.ts...)
				o.str(strings.Repeat(" ", pad))
			} else {
				o.str(strings.Repeat(padc, pad))
				o.ts = append(o.ts, piece.ts...)
			}
		} else {
			o.ts = append(o.ts, piece.ts...)
		}
	}
	if ai < len(args) {
		o.str("%!(EXTRA ")
		for n := ai; n < len(args); n++ {
			if n > ai {
				o.str(", ")
			}
			a := args[n].(Iface)
			if a.T != nil {
				o.str(a.T.String() + "=")
			}
			w.fmtArg(fr, &o, 'v', "", -1, a)
		}
		o.str(")")
	}
	return MkStr(o.ts)
}

func (w *Worker) sprint(fr *frame, args []Value, ln bool) Str {
	var o fmtOut
	prevString := true
	for i, a := range args {
		it := a.(Iface)
		_, isStr := it.V.(Str)
		if ln {
			if i > 0 {
				o.str(" ")
			}
		} else if i > 0 && !isStr && !prevString {
			o.str(" ")
		}
		w.fmtArg(fr, &o, 'v', "", -1, it)
		prevString = isStr
	}
	if ln {
		o.str("\n")
	}
	return MkStr(o.ts)
}

func (w *Worker) fmtArg(fr *frame, o *fmtOut, verb byte, flags string, prec int, arg Iface) {
	if arg.T == nil {
		if verb == 'T' || verb == 'v' || verb == 's' || verb == 'd' {
			if verb == 's' || verb == 'd' {
				o.str("%!" + string(verb) + "(<nil>)")
			} else {
				o.str("<nil>")
			}
			return
		}
		o.str("%!" + string(verb) + "(<nil>)")
		return
	}
	if verb == 'T' {
		o.str(arg.T.String())
		return
	}
	if verb == 'p' {
		o.str(fmt.Sprintf("0xc%07x", w.ptrID(arg.V)))
		return
	}
	// error / Stringer (for the verbs that honour them)
	if verb == 'v' || verb == 's' || verb == 'q' || verb == 'w' {
		for _, mname := range []string{"Error", "String"} {
			if m := w.findMethod(arg.T, mname); m != nil && m.Signature.Params().Len() == 0 && m.Signature.Results().Len() == 1 {
				if b, ok := m.Signature.Results().At(0).Type().Underlying().(*types.Basic); ok && b.Kind() == types.String {
					if p, isPtr := arg.V.(*Value); isPtr && p == nil {
						o.str("<nil>")
						return
					}
					res := w.callRecovering(fr, m, []Value{arg.V})
					if verb == 'q' {
						w.quote(fr, o, res)
					} else {
						o.add(res)
					}
					return
				}
			}
		}
	}
	w.fmtValue(fr, o, verb, flags, prec, arg.V, arg.T, 0)
}

func (w *Worker) callRecovering(fr *frame, m *ssa.Function, args []Value) Str {
	r := w.call(fr, fr.callpos, m, args)
	return r.(Str)
}

func (w *Worker) quote(fr *frame, o *fmtOut, s Str) {
	if s.IsConcrete() {
		o.str(strconv.Quote(s.S))
		return
	}
	w.ex.noteOnce("%q of a symbolic string rendered without escaping")
	o.str("\"")
	o.add(s)
	o.str("\"")
}

func (w *Worker) ptrID(v Value) int {
	if w.ptrIDs == nil {
		w.ptrIDs = map[interface{}]int{}
	}
	var key interface{} = v
	switch v.(type) {
	case *Value, *Chan, *Map, *ssa.Function, *Closure:
	default:
		return 0
	}
	if id, ok := w.ptrIDs[key]; ok {
		return id
	}
	id := len(w.ptrIDs) + 1
	w.ptrIDs[key] = id
	return id
}

func (w *Worker) fmtValue(fr *frame, o *fmtOut, verb byte, flags string, prec int, v Value, t types.Type, depth int) {
	if depth > 6 {
		o.str("...")
		return
	}
	switch x := v.(type) {
	case Str:
		switch verb {
		case 'q':
			w.quote(fr, o, x)
		case 'x':
			o.str(fmt.Sprintf("%x", concStr(fr, x, "%x")))
		case 'd':
			o.str("%!d(string=")
			o.add(x)
			o.str(")")
		default:
			o.add(x)
		}
	case *smt.Term:
		switch x.Sort.K {
		case smt.SBool:
			if w.path.branch(x) {
				o.str("true")
			} else {
				o.str("false")
			}
		case smt.SFP:
			if !x.IsConst() {
				w.fmtSymFloat(fr, o, x)
				return
			}
			f := x.FVal()
			switch verb {
			case 'f', 'F':
				p := prec
				if p < 0 {
					p = 6
				}
				o.str(strconv.FormatFloat(f, 'f', p, 64))
			case 'e':
				p := prec
				if p < 0 {
					p = 6
				}
				o.str(strconv.FormatFloat(f, 'e', p, 64))
			default:
				o.str(strconv.FormatFloat(f, 'g', prec, 64))
			}
		default:
			b, _ := t.Underlying().(*types.Basic)
			signed := b == nil || b.Info()&types.IsUnsigned == 0
			var s string
			u := x.U
			if !x.IsConst() {
				u = w.path.concretize(x, w.ex.Cfg.ConcretizeCap, "integer being formatted")
			}
			sv := (&smt.Term{Op: smt.OConst, Sort: x.Sort, U: u}).SVal()
			switch verb {
			case 'x':
				s = strconv.FormatUint(u, 16)
			case 'c':
				s = string(rune(sv))
			case 'q':
				s = strconv.QuoteRune(rune(sv))
			case 'b':
				s = strconv.FormatUint(u, 2)
			case 'o':
				s = strconv.FormatUint(u, 8)
			default:
				if signed {
					s = strconv.FormatInt(sv, 10)
					if strings.Contains(flags, "+") && sv >= 0 {
						s = "+" + s
					}
				} else {
					s = strconv.FormatUint(u, 10)
				}
			}
			o.str(s)
		}
	case Iface:
		w.fmtArg(fr, o, verb, flags, prec, x)
	case []Value:
		et := t.Underlying().(*types.Slice).Elem()
		if eb, ok := et.Underlying().(*types.Basic); ok && eb.Kind() == types.Uint8 && (verb == 's' || verb == 'q' || verb == 'x') {
			w.fmtValue(fr, o, verb, flags, prec, MkStr(bytesOf(x)), types.Typ[types.String], depth+1)
			return
		}
		o.str("[")
		for i, e := range x {
			if i > 0 {
				o.str(" ")
			}
			w.fmtElem(fr, o, verb, flags, prec, e, et, depth+1)
		}
		o.str("]")
	case Array:
		et := t.Underlying().(*types.Array).Elem()
		o.str("[")
		for i, e := range x {
			if i > 0 {
				o.str(" ")
			}
			w.fmtElem(fr, o, verb, flags, prec, e, et, depth+1)
		}
		o.str("]")
	case Struct:
		st := t.Underlying().(*types.Struct)
		o.str("{")
		for i, e := range x {
			if i > 0 {
				o.str(" ")
			}
			if strings.Contains(flags, "+") {
				o.str(st.Field(i).Name() + ":")
			}
			w.fmtElem(fr, o, verb, flags, prec, e, st.Field(i).Type(), depth+1)
		}
		o.str("}")
	case *Value:
		if x == nil {
			o.str("<nil>")
			return
		}
		if depth == 0 {
			if _, ok := (*x).(Struct); ok {
				o.str("&")
				w.fmtValue(fr, o, verb, flags, prec, *x, deref(t), depth+1)
				return
			}
		}
		o.str(fmt.Sprintf("0xc%07x", w.ptrID(x)))
	case *Map:
		o.str("map[")
		if x != nil {
			mt := t.Underlying().(*types.Map)
			// fmt sorts map keys; concrete string keys are sorted, others keep insertion order
			order := sortedMapOrder(x)
			for n, i := range order {
				if n > 0 {
					o.str(" ")
				}
				w.fmtElem(fr, o, verb, flags, prec, x.Keys[i], mt.Key(), depth+1)
				o.str(":")
				w.fmtElem(fr, o, verb, flags, prec, x.Vals[i], mt.Elem(), depth+1)
			}
		}
		o.str("]")
	case *Chan, *ssa.Function, *Closure:
		o.str(fmt.Sprintf("0xc%07x", w.ptrID(x)))
	case nil:
		o.str("<nil>")
	default:
		o.str(fmt.Sprintf("<%T>", v))
	}
}

func (w *Worker) fmtElem(fr *frame, o *fmtOut, verb byte, flags string, prec int, e Value, et types.Type, depth int) {
	if it, ok := e.(Iface); ok {
		w.fmtArg(fr, o, verb, flags, prec, it)
		return
	}
	// nested values honour Error/String too
	if verb == 'v' || verb == 's' {
		if _, isIface := et.Underlying().(*types.Interface); !isIface {
			for _, mname := range []string{"Error", "String"} {
				if m := w.findMethod(et, mname); m != nil && m.Signature.Params().Len() == 0 && m.Signature.Results().Len() == 1 {
					if b, ok := m.Signature.Results().At(0).Type().Underlying().(*types.Basic); ok && b.Kind() == types.String {
						if p, isPtr := e.(*Value); isPtr && p == nil {
							o.str("<nil>")
							return
						}
						o.add(w.callRecovering(fr, m, []Value{e}))
						return
					}
				}
			}
		}
	}
	w.fmtValue(fr, o, verb, flags, prec, e, et, depth)
}

func sortedMapOrder(m *Map) []int {
	order := make([]int, len(m.Keys))
	for i := range order {
		order[i] = i
	}
	allStr := true
	for _, k := range m.Keys {
		if s, ok := k.(Str); !ok || !s.IsConcrete() {
			allStr = false
			break
		}
	}
	if allStr {
		for i := 1; i < len(order); i++ {
			for j := i; j > 0 && m.Keys[order[j]].(Str).S < m.Keys[order[j-1]].(Str).S; j-- {
				order[j], order[j-1] = order[j-1], order[j]
			}
		}
	}
	return order
}

// show renders a value for Observe (debug/evidence only).
func (w *Worker) show(v Value) string {
	switch x := v.(type) {
	case Str:
		return strconv.Quote(x.String())
	case *smt.Term:
		if x.IsConst() {
			switch x.Sort.K {
			case smt.SBool:
				return fmt.Sprint(x.U != 0)
			case smt.SFP:
				return fmt.Sprint(x.FVal())
			}
			return fmt.Sprint(x.SVal())
		}
		return smt.Ref(x)
	case []Value:
		parts := make([]string, len(x))
		for i, e := range x {
			parts[i] = w.show(e)
		}
		return "[" + strings.Join(parts, " ") + "]"
	case Iface:
		return w.show(x.V)
	}
	return fmt.Sprintf("%T", v)
}

// stdout: bytes printed by the target through fmt.Print*. Kept per path so
// that harnesses can read them back through verifrt.Stdout().
func (w *Worker) stdout(fr *frame, s Str) {
	w.out = append(w.out, s.Terms()...)
}

// fmtSymFloat renders a symbolic float: supported only when the harness has
// registered a rendering (see parseFloat / float digits model).
func (w *Worker) fmtSymFloat(fr *frame, o *fmtOut, x *smt.Term) {
	// A symbolic float is rendered as an opaque token; strconv.ParseFloat maps the
	// token back to the same value (trusted contract: ParseFloat(FormatFloat(f)) == f).
	if s, ok := w.floatText[x.ID]; ok {
		o.add(s)
		return
	}
	w.ex.noteOnce("symbolic floats are formatted as opaque tokens that ParseFloat maps back to the same value (round-trip contract of strconv)")
	tok := fmt.Sprintf("\x01F%d\x01", len(w.floatByText))
	w.floatText[x.ID] = Str{S: tok}
	w.floatByText[tok] = x
	o.add(Str{S: tok})
}

// parseFloat models strconv.ParseFloat(s, 64).
func (w *Worker) parseFloat(fr *frame, s Str) Value {
	if s.IsConcrete() {
		if t, ok := w.floatByText[s.S]; ok {
			return Tuple{t, Iface{}}
		}
		f, err := strconv.ParseFloat(s.S, 64)
		if err != nil {
			return Tuple{smt.FPC(f), mkErr(fr, Str{S: err.Error()})}
		}
		return Tuple{smt.FPC(f), Iface{}}
	}
	// symbolic numeral. Model (stated in the evidence):
	//  - hexadecimal floats ([+-]0x...) are excluded by assumption;
	//  - a string of decimal digits (<= 15) has its exact value;
	//  - any other string accepted by the decimal float grammar, or inf/infinity/nan,
	//    parses to an uninterpreted value of its bytes;
	//  - everything else is a syntax error.
	n := s.Len()
	if n == 0 {
		return Tuple{smt.FPC(0), mkErr(fr, Str{S: "strconv.ParseFloat: parsing \"\": invalid syntax"})}
	}
	if n > 15 {
		panic(engineError("ParseFloat of a symbolic string longer than 15 bytes"))
	}
	ts := s.Terms()
	is := func(b *smt.Term, cs string) *smt.Term {
		r := smt.False
		for i := 0; i < len(cs); i++ {
			r = smt.Or(r, smt.Eq(b, smt.BVC(8, uint64(cs[i]))))
		}
		return r
	}
	digit := func(b *smt.Term) *smt.Term { return smt.And(smt.ULe(smt.BVC(8, '0'), b), smt.ULe(b, smt.BVC(8, '9'))) }
	// hex prefix
	hex := smt.False
	if n >= 2 {
		hex = smt.And(smt.Eq(ts[0], smt.BVC(8, '0')), is(ts[1], "xX"))
	}
	if n >= 3 {
		hex = smt.Or(hex, smt.AndN(is(ts[0], "+-"), smt.Eq(ts[1], smt.BVC(8, '0')), is(ts[2], "xX")))
	}
	if c, ok := hex.ConstBool(); !ok || c {
		w.ex.noteOnce("ParseFloat model: symbolic numerals starting with a hexadecimal prefix are excluded by assumption")
		w.assume(fr, smt.Not(hex))
	}
	allDigits := smt.True
	for _, b := range ts {
		allDigits = smt.And(allDigits, digit(b))
	}
	if w.path.branch(allDigits) {
		val := smt.BVC(64, 0)
		for _, b := range ts {
			val = smt.Add(smt.Mul(val, smt.BVC(64, 10)), smt.ZExt(smt.Sub(b, smt.BVC(8, '0')), 64))
		}
		return Tuple{smt.UIToFP(val), Iface{}}
	}
	// decimal grammar as a DFA over the byte terms (no forking)
	const nst = 9
	st := make([]*smt.Term, nst)
	for i := range st {
		st[i] = smt.False
	}
	st[0] = smt.True
	for _, b := range ts {
		d, sg, dot, e := digit(b), is(b, "+-"), smt.Eq(b, smt.BVC(8, '.')), is(b, "eE")
		nx := make([]*smt.Term, nst)
		for i := range nx {
			nx[i] = smt.False
		}
		add := func(to int, c *smt.Term) { nx[to] = smt.Or(nx[to], c) }
		add(1, smt.And(st[0], sg))
		add(2, smt.And(smt.OrN(st[0], st[1], st[2]), d))
		add(4, smt.And(smt.Or(st[0], st[1]), dot))
		add(3, smt.And(st[2], dot))
		add(6, smt.And(smt.OrN(st[2], st[3], st[5]), e))
		add(5, smt.And(smt.OrN(st[3], st[4], st[5]), d))
		add(7, smt.And(st[6], sg))
		add(8, smt.And(smt.OrN(st[6], st[7], st[8]), d))
		st = nx
	}
	valid := smt.OrN(st[2], st[3], st[5], st[8])
	// specials
	word := func(off int, wd string) *smt.Term {
		if n-off != len(wd) {
			return smt.False
		}
		r := smt.True
		for i := 0; i < len(wd); i++ {
			r = smt.And(r, smt.Eq(lowerTerm(ts[off+i]), smt.BVC(8, uint64(wd[i]))))
		}
		return r
	}
	special := smt.OrN(word(0, "inf"), word(0, "infinity"), word(0, "nan"))
	if n >= 1 {
		special = smt.Or(special, smt.And(is(ts[0], "+-"), smt.Or(word(1, "inf"), word(1, "infinity"))))
	}
	if w.path.branch(smt.Or(valid, special)) {
		v := smt.UF(sanitize(fmt.Sprintf("parsefloat_%d", n)), smt.FP64, ts...)
		return Tuple{v, Iface{}}
	}
	return Tuple{smt.FPC(0), mkErr(fr, Str{S: "strconv.ParseFloat: parsing: invalid syntax"})}
}

// findMethod returns the (exported) method name of type t, or nil.
func (w *Worker) findMethod(t types.Type, name string) *ssa.Function {
	if t == nil {
		return nil
	}
	if _, ok := t.Underlying().(*types.Interface); ok {
		return nil
	}
	sel := w.prog.MethodSets.MethodSet(t).Lookup(nil, name)
	if sel == nil {
		return nil
	}
	return w.prog.MethodValue(sel)
}
