package interp

import (
	"fmt"
	"go/token"
	"go/types"
	"sort"
	"sync"

	"gosmt/smt"

	"golang.org/x/tools/go/ssa"
)

type gstate int

const (
	gRunnable gstate = iota
	gRunning
	gBlocked
	gDone
)

type selCase struct {
	ch   *Chan
	send bool
	val  Value
}

type G struct {
	id          int
	wake        chan struct{}
	state       gstate
	waitCases   []selCase
	waitSeq     int64
	fired       int
	recvVal     Value
	recvOk      bool
	closedPanic bool
	ready       func() bool
	what        string
	isMain      bool
	name        string
	// locks held: sections under a read lock only run concurrently with each other
	rlocks, xlocks int
	// zero-duration timers requested in a row at one instant (spin guard)
	zeroTimerAt int64
	zeroTimers  int
}

type Chan struct {
	id     int
	cap    int
	buf    []Value
	closed bool
	elemT  types.Type
}

type timer struct {
	harness bool // created by verifrt.Sleep: never fired early by the delay-bounded scheduler
	when    int64
	seq     int64
	fn      func()
	stopped bool
	fired   bool
}

type muState struct {
	locked  bool
	readers int
}

type Sched struct {
	w        *Worker
	gs       []*G
	cur      *G
	now      int64
	timers   []*timer
	seq      int64
	anyNext  bool
	preempts int
	delays   int
	hostWG   sync.WaitGroup
	aborting bool
	done     chan struct{}
	doneOnce sync.Once
	nchan    int

	mu    map[*Value]*muState
	wg    map[*Value]*int64
	pools map[*Value][]Value
}

func newSched(w *Worker) *Sched {
	return &Sched{w: w, done: make(chan struct{}), mu: map[*Value]*muState{}, wg: map[*Value]*int64{}, pools: map[*Value][]Value{}}
}

func (s *Sched) finish() { s.doneOnce.Do(func() { close(s.done) }) }

func (w *Worker) newChan(n int, et types.Type) *Chan {
	s := w.sched
	s.nchan++
	return &Chan{id: s.nchan, cap: n, elemT: et}
}

// startG creates a goroutine running body on its own host goroutine; it starts
// executing only when handed the baton.
func (s *Sched) startG(name string, isMain bool, body func(g *G)) *G {
	g := &G{id: len(s.gs), wake: make(chan struct{}, 1), state: gRunnable, isMain: isMain, name: name}
	s.gs = append(s.gs, g)
	s.hostWG.Add(1)
	go func() {
		defer s.hostWG.Done()
		<-g.wake
		if s.aborting {
			return
		}
		defer func() {
			r := recover()
			p := s.w.path
			switch r := r.(type) {
			case nil:
				g.state = gDone
				if g.isMain {
					s.finish()
					return
				}
				// hand the baton on
				s.handOff(g)
				return
			case abortPath:
				_ = r
			case targetPanic:
				if !s.aborting {
					s.w.unrecoveredPanic(g, r)
				}
			case engineError:
				if !s.aborting {
					if p.Outcome == OutOK || p.Outcome == OutInfeasible {
						p.Outcome = OutInconclusive
						p.Why = "engine: " + string(r)
					}
					s.w.ex.noteInconclusive("engine: " + string(r))
				}
			default:
				if !s.aborting {
					p.Outcome = OutInconclusive
					p.Why = fmt.Sprintf("engine crash: %v", r)
					s.w.ex.noteInconclusive(p.Why)
				}
			}
			s.finish()
		}()
		body(g)
	}()
	return g
}

// handOff is called by a finished goroutine: pass the baton without waiting.
func (s *Sched) handOff(g *G) {
	defer func() {
		// pickOrAdvance may abort the path (deadlock); translate to finish
		if r := recover(); r != nil {
			s.finish()
		}
	}()
	next := s.pickOrAdvance(g)
	if next == nil {
		s.finish()
		return
	}
	next.state = gRunning
	s.cur = next
	next.wake <- struct{}{}
}

func (s *Sched) runnable() []*G {
	var rs []*G
	for _, g := range s.gs {
		switch g.state {
		case gRunnable:
			rs = append(rs, g)
		case gBlocked:
			if g.ready != nil && g.ready() {
				rs = append(rs, g)
			}
		}
	}
	return rs
}

// pickOrAdvance selects the next goroutine to run, firing timers if nobody is
// runnable. from is the goroutine giving up the baton.
func (s *Sched) pickOrAdvance(from *G) *G {
	for {
		rs := s.runnable()
		if len(rs) > 0 {
			if s.w.ex.Cfg.SymSched && len(rs) > 1 {
				return rs[s.w.path.choose(len(rs))]
			}
			// delay-bounded scheduling: deviate from the deterministic choice (the first
			// runnable goroutine) by skipping i goroutines, at the cost of i delays; the
			// earliest pending timer may also fire "early" (at the cost of one delay more
			// than skipping every runnable goroutine)
			if left := s.w.ex.Cfg.Delays - s.delays; left > 0 {
				options := len(rs)
				// (only timers due within one second: a goroutine that is runnable but
				// does not get the CPU for longer than that is not considered)
				et := s.earliestTimer()
				timerOpt := et != nil && !et.harness && et.when-s.now <= 1e9
				if timerOpt {
					options++
				}
				if !s.w.ex.Cfg.DelayAny && options > left+1 {
					options = left + 1
				}
				if options > 1 {
					i := s.w.path.choose(options)
					if s.w.ex.Cfg.DelayAny {
						// (delay_any: running any other goroutine than the policy's choice costs one delay)
						if i > 0 {
							s.delays++
						}
					} else {
						s.delays += i
					}
					if i >= len(rs) {
						// fire the earliest timer although goroutines are runnable
						s.fireEarliest()
						continue
					}
					return rs[i]
				}
			}
			return rs[0]
		}
		// nobody runnable: fire the earliest timer
		if s.earliestTimer() == nil {
			return s.deadlock(from)
		}
		s.fireEarliest()
		// compact
		if len(s.timers) > 64 {
			var keep []*timer
			for _, t := range s.timers {
				if !t.stopped && !t.fired {
					keep = append(keep, t)
				}
			}
			s.timers = keep
		}
	}
}

func (s *Sched) earliestTimer() *timer {
	var best *timer
	for _, t := range s.timers {
		if t.stopped || t.fired {
			continue
		}
		if best == nil || t.when < best.when || (t.when == best.when && t.seq < best.seq) {
			best = t
		}
	}
	return best
}

func (s *Sched) fireEarliest() {
	best := s.earliestTimer()
	if best == nil {
		return
	}
	if best.when > s.now {
		s.now = best.when
	}
	if s.now > s.w.ex.Cfg.MaxVirtualNs {
		s.w.ex.noteInconclusive("virtual time budget exhausted")
		s.w.path.abort(OutInconclusive, "virtual time budget")
	}
	best.fired = true
	best.fn()
}

func (s *Sched) deadlock(from *G) *G {
	main := s.gs[0]
	if main.state == gDone {
		return nil
	}
	desc := "deadlock: all goroutines are blocked:"
	for _, g := range s.gs {
		if g.state == gBlocked {
			desc += fmt.Sprintf(" [g%d %s: %s]", g.id, g.name, g.what)
		}
	}
	s.w.deadlocked(desc)
	return nil
}

// block parks the current goroutine (state must have been set by the caller)
// and returns when it is resumed.
func (s *Sched) block(g *G) {
	next := s.pickOrAdvance(g)
	if next == nil {
		// deadlock with main done cannot happen here (g is running); abort
		s.w.path.abort(OutInconclusive, "nothing runnable")
	}
	if next == g {
		g.state = gRunning
		g.ready = nil
		return
	}
	next.state = gRunning
	next.ready = nil
	s.cur = next
	next.wake <- struct{}{}
	<-g.wake
	if s.aborting {
		panic(abortPath{"path ended"})
	}
	g.state = gRunning
	g.ready = nil
}

// waitUntil blocks g until cond holds.
func (s *Sched) waitUntil(g *G, what string, cond func() bool) {
	for !cond() {
		g.state = gBlocked
		g.ready = cond
		g.what = what
		s.block(g)
	}
}

// point is a scheduling point: under the symbolic policy the scheduler may
// preempt the running goroutine here (bounded number of preemptions).
// pointAny is point() with a wider choice: any other runnable goroutine may run
// next, not only the scheduler's next one (used inside read-locked sections, where
// the partner of a race is a specific goroutine).
func (s *Sched) pointAny(g *G) {
	s.anyNext = true
	s.point(g)
	s.anyNext = false
}

func (s *Sched) point(g *G) {
	cfg := &s.w.ex.Cfg
	if !cfg.SymSched && cfg.Delays-s.delays > 0 && cfg.DelayPreempt {
		// delay-bounded: at a synchronisation point the running goroutine may be delayed
		// behind the next runnable one (cost: one delay)
		var others []*G
		for _, o := range s.runnable() {
			if o != g {
				others = append(others, o)
			}
		}
		if len(others) == 0 {
			return
		}
		pick := 0
		if s.anyNext {
			c := s.w.path.choose(1 + len(others))
			if c == 0 {
				return
			}
			pick = c - 1
		} else if s.w.path.choose(2) == 0 {
			return
		}
		s.delays++
		next := others[pick]
		g.state = gRunnable
		next.state = gRunning
		next.ready = nil
		s.cur = next
		next.wake <- struct{}{}
		<-g.wake
		if s.aborting {
			panic(abortPath{"path ended"})
		}
		g.state = gRunning
		return
	}
	if !cfg.SymSched || s.preempts >= cfg.MaxPreempt {
		return
	}
	var others []*G
	for _, o := range s.runnable() {
		if o != g {
			others = append(others, o)
		}
	}
	if len(others) == 0 {
		return
	}
	c := s.w.path.choose(len(others) + 1)
	if c == 0 {
		return
	}
	s.preempts++
	next := others[c-1]
	g.state = gRunnable
	next.state = gRunning
	next.ready = nil
	s.cur = next
	next.wake <- struct{}{}
	<-g.wake
	if s.aborting {
		panic(abortPath{"path ended"})
	}
	g.state = gRunning
}

func (s *Sched) addTimer(d int64, fn func()) *timer {
	if d < 0 {
		d = 0
	}
	s.seq++
	t := &timer{when: s.now + d, seq: s.seq, fn: fn}
	s.timers = append(s.timers, t)
	return t
}

func (s *Sched) sleep(g *G, d int64) { s.sleepH(g, d, false) }

func (s *Sched) sleepH(g *G, d int64, harness bool) {
	if d <= 0 {
		s.point(g)
		return
	}
	woken := false
	t := s.addTimer(d, func() { woken = true })
	t.harness = harness
	s.waitUntil(g, fmt.Sprintf("sleep %dns", d), func() bool { return woken })
}

// spawn implements the go statement.
func (w *Worker) spawn(fr *frame, pos token.Pos, fn Value, args []Value) {
	s := w.sched
	name := "?"
	switch f := fn.(type) {
	case *ssa.Function:
		name = f.String()
	case *Closure:
		name = f.Fn.String()
	}
	if len(s.gs) > w.ex.Cfg.MaxGoroutines {
		w.ex.noteInconclusive("goroutine budget exhausted")
		w.path.abort(OutInconclusive, "goroutine budget")
	}
	s.startG(name, false, func(g *G) {
		root := &frame{w: w, g: g, fn: fr.fn, callpos: pos}
		_ = root
		w.callG(g, pos, fn, args)
	})
	s.point(fr.g)
}

// callG runs fn as the body of goroutine g.
func (w *Worker) callG(g *G, pos token.Pos, fn Value, args []Value) Value {
	// a synthetic bottom frame carrying g
	bottom := &frame{w: w, g: g, callpos: pos, fn: bottomFn(fn)}
	return w.call(bottom, pos, fn, args)
}

func bottomFn(fn Value) *ssa.Function {
	switch f := fn.(type) {
	case *ssa.Function:
		return f
	case *Closure:
		return f.Fn
	}
	return nil
}

// ---------------------------------------------------------------- channels

func (s *Sched) waiting(ch *Chan, send bool) (*G, int) {
	var best *G
	bi := -1
	for _, g := range s.gs {
		if g.state != gBlocked || g.waitCases == nil {
			continue
		}
		for i, c := range g.waitCases {
			if c.ch == ch && c.send == send {
				if best == nil || g.waitSeq < best.waitSeq {
					best, bi = g, i
				}
				break
			}
		}
	}
	return best, bi
}

func (s *Sched) complete(g *G, idx int, v Value, ok bool) {
	g.fired = idx
	g.recvVal = v
	g.recvOk = ok
	g.waitCases = nil
	g.state = gRunnable
}

func (w *Worker) blockForever(fr *frame, what string) {
	g := fr.g
	w.sched.waitUntil(g, what, func() bool { return false })
}

func (w *Worker) chanSend(fr *frame, ch *Chan, v Value) {
	s := w.sched
	g := fr.g
	s.point(g)
	if ch == nil {
		w.blockForever(fr, "send on nil channel")
	}
	if ch.closed {
		fr.rtPanic("send on closed channel")
	}
	v = copyVal(v)
	if r, i := s.waiting(ch, false); r != nil {
		s.complete(r, i, v, true)
		return
	}
	if len(ch.buf) < ch.cap {
		ch.buf = append(ch.buf, v)
		return
	}
	s.seq++
	g.waitSeq = s.seq
	g.waitCases = []selCase{{ch: ch, send: true, val: v}}
	g.state = gBlocked
	g.ready = nil
	g.closedPanic = false
	g.what = fmt.Sprintf("send on chan#%d", ch.id)
	s.block(g)
	if g.closedPanic {
		g.closedPanic = false
		fr.rtPanic("send on closed channel")
	}
}

// tryRecv performs a receive if it can proceed without blocking.
func (s *Sched) tryRecv(ch *Chan) (Value, bool, bool) {
	if len(ch.buf) > 0 {
		v := ch.buf[0]
		ch.buf = append(ch.buf[:0:0], ch.buf[1:]...)
		if sd, i := s.waiting(ch, true); sd != nil {
			ch.buf = append(ch.buf, sd.waitCases[i].val)
			s.complete(sd, i, nil, true)
		}
		return v, true, true
	}
	if sd, i := s.waiting(ch, true); sd != nil {
		v := sd.waitCases[i].val
		s.complete(sd, i, nil, true)
		return v, true, true
	}
	if ch.closed {
		return zero(ch.elemT), false, true
	}
	return nil, false, false
}

func (w *Worker) chanRecv(fr *frame, ch *Chan) (Value, bool) {
	s := w.sched
	g := fr.g
	s.point(g)
	if ch == nil {
		w.blockForever(fr, "receive from nil channel")
	}
	if v, ok, done := s.tryRecv(ch); done {
		return v, ok
	}
	s.seq++
	g.waitSeq = s.seq
	g.waitCases = []selCase{{ch: ch}}
	g.state = gBlocked
	g.ready = nil
	g.what = fmt.Sprintf("receive from chan#%d", ch.id)
	s.block(g)
	return g.recvVal, g.recvOk
}

func (w *Worker) chanClose(fr *frame, ch *Chan) {
	s := w.sched
	s.point(fr.g)
	if ch == nil {
		fr.rtPanic("close of nil channel")
	}
	if ch.closed {
		fr.rtPanic("close of closed channel")
	}
	ch.closed = true
	for _, g := range s.gs {
		if g.state != gBlocked || g.waitCases == nil {
			continue
		}
		for i, c := range g.waitCases {
			if c.ch != ch {
				continue
			}
			if c.send {
				g.closedPanic = true
				s.complete(g, i, nil, false)
			} else {
				s.complete(g, i, zero(ch.elemT), false)
			}
			break
		}
	}
}

func (w *Worker) doSelect(fr *frame, instr *ssa.Select) Value {
	s := w.sched
	g := fr.g
	s.point(g)
	type st struct {
		ch   *Chan
		send bool
		val  Value
	}
	states := make([]st, len(instr.States))
	for i, state := range instr.States {
		states[i].ch, _ = fr.get(state.Chan).(*Chan)
		states[i].send = state.Dir == types.SendOnly
		if state.Send != nil {
			states[i].val = copyVal(fr.get(state.Send))
		}
	}
	var ready []int
	for i, c := range states {
		if c.ch == nil {
			continue
		}
		if c.send {
			r, _ := s.waiting(c.ch, false)
			if c.ch.closed || r != nil || len(c.ch.buf) < c.ch.cap {
				ready = append(ready, i)
			}
		} else {
			sd, _ := s.waiting(c.ch, true)
			if len(c.ch.buf) > 0 || sd != nil || c.ch.closed {
				ready = append(ready, i)
			}
		}
	}
	chosen := -1
	var recvV Value
	recvOk := false
	if len(ready) > 0 {
		k := 0
		if len(ready) > 1 && !w.ex.Cfg.SelectFirst {
			k = w.path.choose(len(ready))
		}
		chosen = ready[k]
		c := states[chosen]
		if c.send {
			if c.ch.closed {
				fr.rtPanic("send on closed channel")
			}
			if r, i := s.waiting(c.ch, false); r != nil {
				s.complete(r, i, c.val, true)
			} else {
				c.ch.buf = append(c.ch.buf, c.val)
			}
		} else {
			recvV, recvOk, _ = s.tryRecv(c.ch)
		}
	} else if instr.Blocking {
		var cases []selCase
		idxmap := []int{}
		for i, c := range states {
			if c.ch == nil {
				continue
			}
			cases = append(cases, selCase{ch: c.ch, send: c.send, val: c.val})
			idxmap = append(idxmap, i)
		}
		if len(cases) == 0 {
			w.blockForever(fr, "select with no ready-able cases")
		}
		s.seq++
		g.waitSeq = s.seq
		g.waitCases = cases
		g.state = gBlocked
		g.ready = nil
		g.closedPanic = false
		g.what = "select"
		s.block(g)
		if g.closedPanic {
			g.closedPanic = false
			fr.rtPanic("send on closed channel")
		}
		chosen = idxmap[g.fired]
		recvV, recvOk = g.recvVal, g.recvOk
	}
	r := Tuple{intC(int64(chosen)), smt.BoolC(recvOk)}
	for i, stt := range instr.States {
		if stt.Dir == types.RecvOnly {
			if i == chosen && recvV != nil {
				r = append(r, recvV)
			} else {
				r = append(r, zero(stt.Chan.Type().Underlying().(*types.Chan).Elem()))
			}
		}
	}
	return r
}

// ---------------------------------------------------------------- path-level events

func (w *Worker) unrecoveredPanic(g *G, tp targetPanic) {
	p := w.path
	site := ""
	if len(tp.stack) > 0 {
		site = tp.stack[0]
	}
	// a registered known panic?
	for _, kp := range w.knownPanics {
		if containsAll(site+" "+tp.msg, kp.substr) {
			if w.ex.Known(kp.id) {
				p.Findings[kp.id] = true
				return
			}
		}
	}
	// a nil dereference inside the os / poll / syscall / regexp packages comes from a
	// stand-in object of a harness (new(os.File), new(regexp.Regexp)) reaching a method
	// the harness does not model: the model is incomplete, the code is not at fault
	if contains(tp.msg, "nil pointer dereference") && !contains(tp.msg, "called on a nil receiver") {
		for _, pkg := range []string{"(*os.File).", "os.", "internal/poll.", "syscall.", "(*regexp.Regexp).", "(*regexp.machine).", "regexp."} {
			if len(site) >= len(pkg) && site[:len(pkg)] == pkg {
				p.Outcome = OutInconclusive
				p.Why = "engine: a harness stand-in object reached an unmodelled method: " + site
				w.ex.noteInconclusive(p.Why)
				return
			}
		}
	}
	what := fmt.Sprintf("unrecovered panic in goroutine %d (%s): %s", g.id, g.name, tp.msg)
	w.reportPathViolation(what, site, tp.stack)
}

func containsAll(hay string, needles []string) bool {
	for _, n := range needles {
		if !contains(hay, n) {
			return false
		}
	}
	return true
}

func contains(h, n string) bool {
	for i := 0; i+len(n) <= len(h); i++ {
		if h[i:i+len(n)] == n {
			return true
		}
	}
	return false
}

// reportPathViolation records a violation that holds for every value of the
// current path condition (panic, deadlock): any model of pc is a witness.
func (w *Worker) reportPathViolation(what, site string, stack []string) {
	p := w.path
	r := w.solver.Check()
	if r != smt.Sat {
		p.Outcome = OutInconclusive
		p.Why = "could not obtain a model for: " + what
		w.ex.noteInconclusive(p.Why)
		return
	}
	m, ok := p.model()
	if !ok {
		p.Outcome = OutInconclusive
		p.Why = "could not read model for: " + what
		w.ex.noteInconclusive(p.Why)
		return
	}
	p.Violations = append(p.Violations, &Violation{What: what, Site: site, Model: m, Trace: traceStrings(p.trace), Stack: stack, Notes: append([]string{}, p.Observed...)})
	p.Outcome = OutViolation
	p.Why = what
}

func (w *Worker) deadlocked(desc string) {
	p := w.path
	if w.allowDeadlock {
		p.Notes = append(p.Notes, desc)
		p.abort(OutOK, "deadlock (allowed)")
	}
	w.reportPathViolation(desc, "", nil)
	panic(abortPath{"deadlock"})
}

func sortInts(a []int) { sort.Ints(a) }

// fatal: an error of the Go runtime that no recover can catch (the process dies).
func (w *Worker) fatal(fr *frame, msg string) {
	site := fr.fn.String()
	w.reportPathViolation(msg, site, fr.stack())
	panic(abortPath{"fatal error"})
}
