package interp

import (
	"fmt"
	"go/token"
	"go/types"
	"os"
	"runtime"
	"strings"
	"sync"

	"gosmt/smt"

	"golang.org/x/tools/go/ssa"
)

type deferred struct {
	fn    Value
	args  []Value
	instr *ssa.Defer
	tail  *deferred
}

type frame struct {
	w                *Worker
	g                *G
	caller           *frame
	fn               *ssa.Function
	block, prevBlock *ssa.BasicBlock
	env              map[ssa.Value]Value
	locals           []Value
	defers           *deferred
	result           Value
	panicking        bool
	panic            interface{}
	phitemps         []Value
	callpos          token.Pos
	returned         bool // the function has returned (its map iterators are dead)
}

// targetPanic is a panic of the interpreted program.
type targetPanic struct {
	v     Value // the panic value (an Iface)
	msg   string
	stack []string
}

func (fr *frame) stack() []string {
	var out []string
	for f := fr; f != nil; f = f.caller {
		pos := ""
		if f.caller != nil || true {
			pos = f.w.prog.Fset.Position(f.callpos).String()
		}
		out = append(out, f.fn.String()+" (called at "+pos+")")
		if len(out) > 40 {
			break
		}
	}
	return out
}

// rtPanic raises a Go run-time panic in the target program.
func (fr *frame) rtPanic(msg string) {
	panic(targetPanic{v: Iface{T: rtErrType, V: Str{S: "runtime error: " + msg}}, msg: "runtime error: " + msg, stack: fr.stack()})
}

// rtErrType stands for runtime.Error values created by the engine.
var rtErrType = types.NewNamed(types.NewTypeName(token.NoPos, nil, "runtimeError", nil), types.Typ[types.String], nil)

func (fr *frame) get(key ssa.Value) Value {
	switch key := key.(type) {
	case nil:
		return nil
	case *ssa.Function:
		return key
	case *ssa.Builtin:
		return key
	case *ssa.Const:
		return fr.w.constValue(key)
	case *ssa.Global:
		return fr.w.global(key)
	}
	if r, ok := fr.env[key]; ok {
		return r
	}
	panic(engineError(fmt.Sprintf("get: no value for %T: %v in %s", key, key.Name(), fr.fn)))
}

func (fr *frame) runDefer(d *deferred) {
	var ok bool
	defer func() {
		if !ok {
			r := recover()
			if isEngineAbort(r) {
				panic(r)
			}
			fr.panicking = true
			fr.panic = r
		}
	}()
	fr.w.call(fr, d.instr.Pos(), d.fn, d.args)
	ok = true
}

func isEngineAbort(r interface{}) bool {
	switch r.(type) {
	case targetPanic:
		return false
	}
	return true
}

func (fr *frame) runDefers() {
	for d := fr.defers; d != nil; d = d.tail {
		fr.runDefer(d)
	}
	fr.defers = nil
	if fr.panicking {
		panic(fr.panic)
	}
}

func deref(t types.Type) types.Type {
	if p, ok := t.Underlying().(*types.Pointer); ok {
		return p.Elem()
	}
	panic(engineError(fmt.Sprintf("deref of non-pointer type %v", t)))
}

type continuation int

const (
	kNext continuation = iota
	kReturn
	kJump
)

func (w *Worker) tick(fr *frame) {
	p := w.path
	p.instrs++
	if p.instrs > w.ex.Cfg.MaxInstrs {
		w.ex.noteInconclusive(fmt.Sprintf("instruction budget (%d) exhausted in %s", w.ex.Cfg.MaxInstrs, fr.fn))
		p.abort(OutInconclusive, "instruction budget")
	}
	if p.instrs&0x3ff == 0 && w.ex.stopped() {
		p.abort(OutInconclusive, "run stopped")
	}
}

func (fr *frame) visitInstr(instr ssa.Instruction) continuation {
	w := fr.w
	w.tick(fr)
	if traceFn != "" && strings.Contains(fr.fn.String(), traceFn) {
		defer func() {
			if v, ok := instr.(ssa.Value); ok {
				fmt.Fprintf(os.Stderr, "TRACE %s: %s = %s  => %s\n", fr.fn.Name(), v.Name(), instr, w.show(fr.env[v]))
			} else {
				fmt.Fprintf(os.Stderr, "TRACE %s: %s\n", fr.fn.Name(), instr)
			}
		}()
	}
	switch instr := instr.(type) {
	case *ssa.DebugRef:
	case *ssa.UnOp:
		fr.env[instr] = fr.unop(instr, fr.get(instr.X))
	case *ssa.BinOp:
		fr.env[instr] = fr.binop(instr.Op, instr.X.Type(), fr.get(instr.X), fr.get(instr.Y), instr.Y.Type())
	case *ssa.Call:
		fn, args := fr.prepareCall(&instr.Call)
		fr.env[instr] = w.call(fr, instr.Pos(), fn, args)
	case *ssa.ChangeInterface:
		fr.env[instr] = fr.get(instr.X)
	case *ssa.ChangeType:
		fr.env[instr] = fr.get(instr.X)
	case *ssa.Convert:
		fr.env[instr] = fr.conv(instr.Type(), instr.X.Type(), fr.get(instr.X))
	case *ssa.MultiConvert:
		fr.env[instr] = fr.conv(instr.Type(), instr.X.Type(), fr.get(instr.X))
	case *ssa.SliceToArrayPointer:
		x := fr.get(instr.X).([]Value)
		n := int(instr.Type().Underlying().(*types.Pointer).Elem().Underlying().(*types.Array).Len())
		if len(x) < n {
			fr.rtPanic("cannot convert slice to array pointer: length too short")
		}
		var cell Value = Array(x[:n:n])
		fr.env[instr] = &cell
	case *ssa.MakeInterface:
		fr.env[instr] = Iface{T: instr.X.Type(), V: fr.get(instr.X)}
	case *ssa.Extract:
		fr.env[instr] = fr.get(instr.Tuple).(Tuple)[instr.Index]
	case *ssa.Slice:
		fr.env[instr] = fr.slice(instr, fr.get(instr.X), fr.get(instr.Low), fr.get(instr.High), fr.get(instr.Max))
	case *ssa.Return:
		switch len(instr.Results) {
		case 0:
		case 1:
			fr.result = fr.get(instr.Results[0])
		default:
			res := make(Tuple, len(instr.Results))
			for i, r := range instr.Results {
				res[i] = fr.get(r)
			}
			fr.result = res
		}
		fr.block = nil
		return kReturn
	case *ssa.RunDefers:
		fr.runDefers()
	case *ssa.Panic:
		v := fr.get(instr.X)
		panic(targetPanic{v: v, msg: w.panicString(fr, v), stack: fr.stack()})
	case *ssa.Send:
		w.chanSend(fr, fr.get(instr.Chan).(*Chan), fr.get(instr.X))
	case *ssa.Store:
		fr.store(fr.get(instr.Addr), fr.get(instr.Val))
	case *ssa.If:
		succ := 1
		if w.path.branch(fr.get(instr.Cond).(*smt.Term)) {
			succ = 0
		}
		fr.prevBlock, fr.block = fr.block, fr.block.Succs[succ]
		return kJump
	case *ssa.Jump:
		fr.prevBlock, fr.block = fr.block, fr.block.Succs[0]
		return kJump
	case *ssa.Defer:
		fn, args := fr.prepareCall(&instr.Call)
		defers := &fr.defers
		if instr.DeferStack != nil {
			if into, ok := fr.get(instr.DeferStack).(**deferred); ok && into != nil {
				defers = into
			}
		}
		*defers = &deferred{fn: fn, args: args, instr: instr, tail: *defers}
	case *ssa.Go:
		fn, args := fr.prepareCall(&instr.Call)
		w.spawn(fr, instr.Pos(), fn, args)
	case *ssa.MakeChan:
		n := fr.concInt(fr.get(instr.Size), "chan size")
		if n < 0 {
			fr.rtPanic("makechan: size out of range")
		}
		fr.env[instr] = w.newChan(int(n), instr.Type().Underlying().(*types.Chan).Elem())
	case *ssa.Alloc:
		var addr *Value
		if instr.Heap {
			addr = new(Value)
			fr.env[instr] = addr
		} else {
			addr = fr.env[instr].(*Value)
		}
		*addr = zero(deref(instr.Type()))
	case *ssa.MakeSlice:
		l := fr.concInt(fr.get(instr.Len), "make len")
		c := fr.concInt(fr.get(instr.Cap), "make cap")
		if l < 0 || l > 1<<24 {
			fr.rtPanic("makeslice: len out of range")
		}
		if c < l || c > 1<<24 {
			fr.rtPanic("makeslice: cap out of range")
		}
		s := make([]Value, c)
		tElt := instr.Type().Underlying().(*types.Slice).Elem()
		fillZero(s, tElt)
		fr.env[instr] = s[:l]
	case *ssa.MakeMap:
		fr.env[instr] = newMap(instr.Type().Underlying().(*types.Map).Key())
	case *ssa.Range:
		fr.env[instr] = fr.rangeIter(fr.get(instr.X), instr.X.Type())
	case *ssa.Next:
		fr.env[instr] = fr.get(instr.Iter).(iter).next(fr)
	case *ssa.FieldAddr:
		x := fr.get(instr.X)
		p, ok := x.(*Value)
		if !ok {
			panic(engineError(fmt.Sprintf("FieldAddr on %T", x)))
		}
		if p == nil {
			fr.rtPanic("invalid memory address or nil pointer dereference")
		}
		fr.env[instr] = &(*p).(Struct)[instr.Field]
	case *ssa.Field:
		fr.env[instr] = fr.get(instr.X).(Struct)[instr.Field]
	case *ssa.IndexAddr:
		fr.env[instr] = fr.indexAddr(fr.get(instr.X), fr.get(instr.Index).(*smt.Term), instr.Index.Type())
	case *ssa.Index:
		fr.env[instr] = fr.index(fr.get(instr.X), fr.get(instr.Index).(*smt.Term), instr.Index.Type())
	case *ssa.Lookup:
		fr.env[instr] = fr.lookup(instr, fr.get(instr.X), fr.get(instr.Index))
	case *ssa.MapUpdate:
		m := fr.get(instr.Map).(*Map)
		if m == nil {
			fr.rtPanic("assignment to entry in nil map")
		}
		fr.mapUpdate(m, fr.get(instr.Key), fr.get(instr.Value))
	case *ssa.TypeAssert:
		fr.env[instr] = fr.typeAssert(instr, fr.get(instr.X).(Iface))
	case *ssa.MakeClosure:
		var bindings []Value
		for _, b := range instr.Bindings {
			bindings = append(bindings, fr.get(b))
		}
		fr.env[instr] = &Closure{instr.Fn.(*ssa.Function), bindings}
	case *ssa.Phi:
		panic(engineError("phi reached"))
	case *ssa.Select:
		fr.env[instr] = w.doSelect(fr, instr)
	default:
		panic(engineError(fmt.Sprintf("unexpected instruction: %T", instr)))
	}
	return kNext
}

func fillZero(s []Value, t types.Type) {
	switch t.Underlying().(type) {
	case *types.Struct, *types.Array:
		for i := range s {
			s[i] = zero(t)
		}
	default:
		z := zero(t)
		for i := range s {
			s[i] = z
		}
	}
}

func (fr *frame) prepareCall(call *ssa.CallCommon) (fn Value, args []Value) {
	v := fr.get(call.Value)
	if call.Method == nil {
		fn = v
	} else {
		recv := v.(Iface)
		if recv.T == nil {
			fr.rtPanic("invalid memory address or nil pointer dereference (method call on nil interface)")
		}
		f := fr.w.lookupMethod(recv.T, call.Method)
		if f == nil {
			panic(engineError(fmt.Sprintf("method set for dynamic type %v does not contain %s", recv.T, call.Method)))
		}
		fn = f
		args = append(args, recv.V)
	}
	for _, arg := range call.Args {
		args = append(args, fr.get(arg))
	}
	return
}

func (w *Worker) lookupMethod(t types.Type, meth *types.Func) *ssa.Function {
	return w.prog.LookupMethod(t, meth.Pkg(), meth.Name())
}

func (w *Worker) call(caller *frame, callpos token.Pos, fn Value, args []Value) Value {
	switch fn := fn.(type) {
	case *ssa.Function:
		if fn == nil {
			caller.rtPanic("invalid memory address or nil pointer dereference (call of nil func)")
		}
		return w.callSSA(caller, callpos, fn, args, nil)
	case *Closure:
		if fn == nil {
			caller.rtPanic("invalid memory address or nil pointer dereference (call of nil func)")
		}
		return w.callSSA(caller, callpos, fn.Fn, args, fn.Env)
	case *ssa.Builtin:
		return w.callBuiltin(caller, callpos, fn, args)
	}
	panic(engineError(fmt.Sprintf("cannot call %T", fn)))
}

func (w *Worker) callSSA(caller *frame, callpos token.Pos, fn *ssa.Function, args []Value, env []Value) Value {
	fr := &frame{w: w, caller: caller, fn: fn, callpos: callpos}
	if caller != nil {
		fr.g = caller.g
		if w.depth(fr) > 400 {
			panic(engineError("call depth exceeded in " + fn.String()))
		}
	}
	name := fn.String()
	if fn.Origin() != nil {
		name = fn.Origin().String()
	}
	if fn.Synthetic == "package initializer" && caller != nil && caller.fn != fn {
		w.ensureInit(fn.Pkg)
		return nil
	}
	if rep, ok := w.ex.Replace[name]; ok && (caller == nil || !w.inReplacement(caller, rep)) {
		// a stand-in for a method must not hide a nil receiver: the real method of a
		// library type dereferences it
		if fn.Signature.Recv() != nil && len(args) > 0 {
			if rp, isPtr := args[0].(*Value); isPtr && rp == nil {
				if _, ptrRecv := fn.Signature.Recv().Type().(*types.Pointer); ptrRecv {
					fr.rtPanic("invalid memory address or nil pointer dereference (method " + name + " called on a nil receiver)")
				}
			}
		}
		w.ex.noteStub(name + " => " + rep.String())
		return w.callSSA(caller, callpos, rep, args, nil)
	}
	if (strings.HasPrefix(name, "(*os.File).") || strings.HasPrefix(name, "(*regexp.Regexp).")) && len(args) > 0 {
		// a harness stand-in (new(os.File), new(regexp.Regexp): all fields zero) reaching a
		// method the harness does not model: the model is incomplete, not the code at fault
		if rp, ok := args[0].(*Value); ok && rp != nil {
			if st, ok := (*rp).(Struct); ok && len(st) > 0 {
				if fp, ok := st[0].(*Value); ok && fp == nil && (len(st) == 1 || strings.HasPrefix(name, "(*os.File).")) {
					panic(engineError("stand-in object of a harness reached the unmodelled method " + name))
				}
				if strings.HasPrefix(name, "(*regexp.Regexp).") && !strings.HasSuffix(name, ".String") && len(st) > 1 {
					if pp, ok := st[1].(*Value); ok && pp == nil {
						panic(engineError("stand-in object of a harness reached the unmodelled method " + name))
					}
				}
			}
		}
	}
	if intr, ok := intrinsics[name]; ok {
		w.ex.noteIntrinsic(name)
		return intr(fr, args)
	}
	// packages are built lazily; Build() is idempotent and waits for a build in progress
	if fn.Pkg != nil {
		ensureBuilt(fn.Pkg)
	} else if fn.Origin() != nil && fn.Origin().Pkg != nil {
		ensureBuilt(fn.Origin().Pkg)
	} else if fn.Parent() != nil {
		for p := fn.Parent(); p != nil; p = p.Parent() {
			if p.Pkg != nil {
				ensureBuilt(p.Pkg)
				break
			}
		}
	}
	if fn.Blocks == nil {
		panic(engineError("no code for function: " + name))
	}
	w.ex.noteFunc(fn)
	fr.env = make(map[ssa.Value]Value, 16)
	fr.block = fn.Blocks[0]
	fr.locals = make([]Value, len(fn.Locals))
	for i, l := range fn.Locals {
		fr.locals[i] = zero(deref(l.Type()))
		fr.env[l] = &fr.locals[i]
	}
	for i, p := range fn.Params {
		fr.env[p] = args[i]
	}
	for i, fv := range fn.FreeVars {
		fr.env[fv] = env[i]
	}
	for fr.block != nil {
		fr.runFrame()
	}
	fr.returned = true
	return fr.result
}

func (w *Worker) depth(fr *frame) int {
	n := 0
	for f := fr; f != nil; f = f.caller {
		n++
	}
	return n
}

// inReplacement: is rep already on the stack (a replacement may call the original)?
func (w *Worker) inReplacement(fr *frame, rep *ssa.Function) bool {
	for f := fr; f != nil; f = f.caller {
		if f.fn == rep {
			return true
		}
	}
	return false
}

func (fr *frame) runFrame() {
	defer func() {
		if fr.block == nil {
			return
		}
		r := recover()
		if isEngineAbort(r) {
			if _, ok := r.(abortPath); !ok {
				if _, ok2 := r.(engineError); !ok2 {
					// a bug in the engine itself: keep the Go stack for diagnosis
					buf := make([]byte, 1<<14)
					n := runtime.Stack(buf, false)
					r = engineError(fmt.Sprintf("engine crash: %v in %s (target stack: %v)\n%s", r, fr.fn, fr.stack(), buf[:n]))
				}
			}
			panic(r)
		}
		fr.panicking = true
		fr.panic = r
		fr.runDefers() // re-panics unless recovered
		fr.block = fr.fn.Recover
		if fr.block == nil {
			// recovered in a function without named results: return zero values
			fr.result = zeroResults(fr.fn)
		}
	}()
	for {
		nonPhis := fr.executePhis()
		for _, instr := range nonPhis {
			if fr.visitInstr(instr) == kReturn {
				return
			}
		}
	}
}

func zeroResults(fn *ssa.Function) Value {
	res := fn.Signature.Results()
	switch res.Len() {
	case 0:
		return nil
	case 1:
		return zero(res.At(0).Type())
	}
	t := make(Tuple, res.Len())
	for i := range t {
		t[i] = zero(res.At(i).Type())
	}
	return t
}

func (fr *frame) executePhis() []ssa.Instruction {
	firstNonPhi := -1
	for i, instr := range fr.block.Instrs {
		if _, ok := instr.(*ssa.Phi); !ok {
			firstNonPhi = i
			break
		}
	}
	nonPhis := fr.block.Instrs[firstNonPhi:]
	if firstNonPhi > 0 {
		phis := fr.block.Instrs[:firstNonPhi]
		predIndex := -1
		for i, b := range fr.block.Preds {
			if b == fr.prevBlock {
				predIndex = i
				break
			}
		}
		fr.phitemps = fr.phitemps[:0]
		for _, phi := range phis {
			fr.phitemps = append(fr.phitemps, fr.get(phi.(*ssa.Phi).Edges[predIndex]))
		}
		for i, phi := range phis {
			fr.env[phi.(*ssa.Phi)] = fr.phitemps[i]
		}
	}
	return nonPhis
}

// doRecover implements recover().
func (fr *frame) doRecover() Value {
	caller := fr
	if caller != nil && !caller.panicking && caller.caller != nil && caller.caller.panicking {
		caller.caller.panicking = false
		p := caller.caller.panic
		caller.caller.panic = nil
		switch p := p.(type) {
		case targetPanic:
			return p.v
		default:
			panic(engineError(fmt.Sprintf("unexpected panic type %T in recover", p)))
		}
	}
	return Iface{}
}

func (w *Worker) panicString(fr *frame, v Value) string {
	if i, ok := v.(Iface); ok {
		switch x := i.V.(type) {
		case Str:
			return x.String()
		case *smt.Term:
			return smt.Ref(x)
		}
		if i.T != nil {
			return "panic of type " + i.T.String()
		}
		return "panic(nil)"
	}
	return fmt.Sprint(v)
}

// constValue converts an ssa.Const.
func (w *Worker) constValue(c *ssa.Const) Value {
	if c.Value == nil {
		return zero(c.Type())
	}
	if t, ok := c.Type().Underlying().(*types.Basic); ok {
		switch {
		case t.Info()&types.IsBoolean != 0:
			return smt.BoolC(constantBool(c))
		case t.Info()&types.IsInteger != 0:
			wd, _ := intWidth(t)
			if t.Info()&types.IsUnsigned != 0 {
				return smt.BVC(wd, c.Uint64())
			}
			return smt.BVC(wd, uint64(c.Int64()))
		case t.Info()&types.IsFloat != 0:
			return smt.FPC(c.Float64())
		case t.Info()&types.IsString != 0:
			return Str{S: constantString(c)}
		}
	}
	panic(engineError(fmt.Sprintf("constValue: %s", c)))
}

func (w *Worker) funcName(fn *ssa.Function) string { return strings.TrimSpace(fn.String()) }

var traceFn = os.Getenv("GOSMT_TRACE")

var builtPkgs sync.Map

func ensureBuilt(p *ssa.Package) {
	if _, ok := builtPkgs.Load(p); ok {
		return
	}
	p.Build()
	builtPkgs.Store(p, true)
}
