package interp

import (
	"fmt"
	"sort"
	"strings"

	"gosmt/smt"
)

// Decision kinds recorded along a path (re-execution DFS).
type DKind uint8

const (
	DBranch  DKind = iota // symbolic branch; B = side taken
	DValue                // concretisation / choice; V = value taken
	DExclude              // pending alternative of a concretisation: any value not in Ex
	DChoose               // eager enumeration 0..N-1 (no solver); V = value, N = count
)

type Decision struct {
	K  DKind
	B  bool
	V  uint64
	N  int
	Ex []uint64
}

func (d Decision) String() string {
	switch d.K {
	case DBranch:
		if d.B {
			return "T"
		}
		return "F"
	case DValue:
		return fmt.Sprintf("v%d", d.V)
	case DExclude:
		return fmt.Sprintf("x%v", d.Ex)
	default:
		return fmt.Sprintf("c%d/%d", d.V, d.N)
	}
}

type Outcome int

const (
	OutOK           Outcome = iota // path ran to the end, all assertions discharged
	OutInfeasible                  // assumption infeasible / excluded alternative empty
	OutViolation                   // assertion failed with a model
	OutInconclusive                // budget, solver unknown, engine error
)

type Violation struct {
	What   string            // assertion label / panic description
	Site   string            // function where it arose
	Model  map[string]uint64 // values of all nondet symbols
	Trace  []string          // decision trace
	Stack  []string
	Notes  []string
}

// Path is the state of one execution.
type Path struct {
	w       *Worker
	prefix  []Decision
	pos     int
	trace   []Decision
	symbols []*smt.Term
	symByName map[string]*smt.Term
	nameCtr map[string]int
	extra   map[string]uint64 // harness-level choices (verifrt.Choose), part of every model
	decided map[int64]bool // outcome of branch terms already decided on this path
	hasDecided map[int64]bool
	instrs  int64

	Outcome    Outcome
	Why        string
	Violations []*Violation
	Reached    map[string]bool
	Findings   map[string]bool // known findings exhibited
	Observed   []string
	Witness    map[string]uint64
	Notes      []string
	unknowns   int
	asserts    int
}

type abortPath struct{ reason string }

func (p *Path) abort(o Outcome, why string) {
	if p.Outcome == OutOK || o == OutInconclusive && p.Outcome == OutInfeasible {
		p.Outcome = o
		p.Why = why
	}
	panic(abortPath{why})
}

func (p *Path) fresh(name string, s smt.Sort) *smt.Term {
	n := p.nameCtr[name]
	p.nameCtr[name] = n + 1
	full := name
	if n > 0 {
		full = fmt.Sprintf("%s#%d", name, n)
	}
	full = sanitize(full)
	v := smt.Var(full, s)
	p.symbols = append(p.symbols, v)
	p.symByName[full] = v
	p.w.solver.Declare(v)
	return v
}

func sanitize(s string) string {
	var sb strings.Builder
	sb.WriteByte('|')
	for _, c := range s {
		if c == '|' || c == '\\' {
			c = '_'
		}
		sb.WriteRune(c)
	}
	sb.WriteByte('|')
	return sb.String()
}

func (p *Path) assertPC(c *smt.Term) {
	p.w.solver.Assert(c)
}

// branch decides a symbolic condition.
func (p *Path) branch(c *smt.Term) bool {
	if b, ok := c.ConstBool(); ok {
		return b
	}
	if p.hasDecided[c.ID] {
		return p.decided[c.ID]
	}
	if c.Op == smt.ONot && p.hasDecided[c.Args[0].ID] {
		return !p.decided[c.Args[0].ID]
	}
	var res bool
	if p.pos < len(p.prefix) {
		d := p.prefix[p.pos]
		p.pos++
		if d.K != DBranch {
			panic(engineError(fmt.Sprintf("replay divergence: expected branch, trace has %v at %d", d, p.pos-1)))
		}
		res = d.B
		p.trace = append(p.trace, d)
		if d.N == 0 { // not forced: constrain
			if res {
				p.assertPC(c)
			} else {
				p.assertPC(smt.Not(c))
			}
		}
	} else {
		s := p.w.solver
		rT := s.CheckWith(c)
		var rF smt.Result
		if rT == smt.Unsat {
			rF = smt.Sat
		} else {
			rF = s.CheckWith(smt.Not(c))
		}
		if rT == smt.Unknown || rF == smt.Unknown {
			p.unknowns++
			p.w.ex.noteInconclusive("solver unknown on a branch condition")
		}
		tOK, fOK := rT != smt.Unsat, rF != smt.Unsat
		switch {
		case tOK && fOK:
			alt := append(append([]Decision{}, p.trace...), Decision{K: DBranch, B: false})
			p.w.ex.push(alt)
			res = true
			p.trace = append(p.trace, Decision{K: DBranch, B: true})
			p.assertPC(c)
		case tOK:
			res = true
			p.trace = append(p.trace, Decision{K: DBranch, B: true, N: 1})
		case fOK:
			res = false
			p.trace = append(p.trace, Decision{K: DBranch, B: false, N: 1})
		default:
			p.abort(OutInconclusive, "both sides of a branch infeasible (path condition unsat?)")
		}
		p.w.ex.addDecision()
	}
	p.hasDecided[c.ID] = true
	p.decided[c.ID] = res
	return res
}

// choose enumerates 0..n-1 eagerly.
func (p *Path) choose(n int) int {
	if n <= 1 {
		return 0
	}
	if p.pos < len(p.prefix) {
		d := p.prefix[p.pos]
		p.pos++
		if d.K != DChoose || d.N != n {
			panic(engineError(fmt.Sprintf("replay divergence: expected choose/%d, trace has %v", n, d)))
		}
		if p.pos == len(p.prefix) && int(d.V)+1 < n {
			// the alternative after this one
			alt := append(append([]Decision{}, p.trace...), Decision{K: DChoose, V: d.V + 1, N: n})
			p.w.ex.push(alt)
		}
		p.trace = append(p.trace, d)
		return int(d.V)
	}
	alt := append(append([]Decision{}, p.trace...), Decision{K: DChoose, V: 1, N: n})
	p.w.ex.push(alt)
	p.trace = append(p.trace, Decision{K: DChoose, V: 0, N: n})
	p.w.ex.addDecision()
	return 0
}

// concretize forks over the feasible values of t (at most limit of them); the
// feasible values are enumerated by the solver right here, so no alternative is
// pushed that later turns out to be empty.
func (p *Path) concretize(t *smt.Term, limit int, what string) uint64 {
	if t.IsConst() {
		return t.U
	}
	s := p.w.solver
	if p.pos < len(p.prefix) {
		d := p.prefix[p.pos]
		p.pos++
		if d.K != DValue {
			panic(engineError(fmt.Sprintf("replay divergence: expected value, trace has %v", d)))
		}
		p.trace = append(p.trace, d)
		p.assertPC(smt.Eq(t, &smt.Term{Op: smt.OConst, Sort: t.Sort, U: d.V}))
		return d.V
	}
	var vals []uint64
	s.Push()
	for len(vals) <= limit {
		r := s.Check()
		if r == smt.Unsat {
			break
		}
		if r == smt.Unknown {
			s.Pop()
			p.unknowns++
			p.abort(OutInconclusive, "solver unknown at concretisation of "+what)
		}
		got, err := s.GetValues([]*smt.Term{t})
		if err != nil {
			s.Pop()
			p.abort(OutInconclusive, "get-value failed: "+err.Error())
		}
		v := got[t]
		vals = append(vals, v)
		s.Assert(smt.Ne(t, &smt.Term{Op: smt.OConst, Sort: t.Sort, U: v}))
	}
	s.Pop()
	if len(vals) == 0 {
		p.abort(OutInconclusive, "path condition unsat at concretisation")
	}
	if len(vals) > limit {
		p.w.ex.noteInconclusive(fmt.Sprintf("concretisation cap %d exceeded for %s", limit, what))
		vals = vals[:limit]
	}
	for i := len(vals) - 1; i >= 1; i-- {
		alt := append(append([]Decision{}, p.trace...), Decision{K: DValue, V: vals[i]})
		p.w.ex.push(alt)
	}
	v := vals[0]
	p.trace = append(p.trace, Decision{K: DValue, V: v})
	if len(vals) > 1 {
		p.assertPC(smt.Eq(t, &smt.Term{Op: smt.OConst, Sort: t.Sort, U: v}))
	}
	p.w.ex.addDecision()
	return v
}

func (p *Path) model() (map[string]uint64, bool) {
	vals, err := p.w.solver.GetValues(p.symbols)
	if err != nil {
		return nil, false
	}
	m := map[string]uint64{}
	for _, s := range p.symbols {
		m[strings.Trim(s.Name, "|")] = vals[s]
	}
	for k, v := range p.extra {
		m[k] = v
	}
	return m, true
}

// check asserts that c holds on every value of the path; returns true if discharged.
func (p *Path) check(c *smt.Term, what string, fr *frame) bool {
	p.asserts++
	p.w.ex.addObligation()
	if b, ok := c.ConstBool(); ok && b {
		p.w.ex.addDischarged()
		return true
	}
	s := p.w.solver
	nc := smt.Not(c)
	s.Push()
	s.Assert(nc)
	r := s.Check()
	if r == smt.Sat {
		m, ok := p.model()
		s.Pop()
		if !ok {
			p.abort(OutInconclusive, "could not read model for a failed assertion")
		}
		v := &Violation{What: what, Model: m, Trace: traceStrings(p.trace), Notes: append([]string{}, p.Observed...)}
		if fr != nil {
			v.Site = fr.fn.String()
			v.Stack = fr.stack()
		}
		p.Violations = append(p.Violations, v)
		if p.Outcome == OutOK {
			p.Outcome = OutViolation
			p.Why = what
		}
		return false
	}
	s.Pop()
	if r == smt.Unknown {
		p.unknowns++
		p.w.ex.noteInconclusive("solver unknown on assertion " + what)
		return false
	}
	p.w.ex.addDischarged()
	return true
}

func traceStrings(t []Decision) []string {
	out := make([]string, len(t))
	for i, d := range t {
		out[i] = d.String()
	}
	return out
}

func sortedKeys(m map[string]bool) []string {
	var ks []string
	for k := range m {
		ks = append(ks, k)
	}
	sort.Strings(ks)
	return ks
}
