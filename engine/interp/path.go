package interp

import (
	"fmt"
	"sort"
	"strings"

	"gosmt/smt"
)

// Decision kinds recorded along a path (re-execution DFS).
type DKind uint8

const (
	DBranch  DKind = iota // symbolic branch; B = side taken
	DValue                // concretisation / choice; V = value taken
	DExclude              // pending alternative of a concretisation: any value not in Ex
	DChoose               // eager enumeration 0..N-1 (no solver); V = value, N = count
)

type Decision struct {
	K  DKind
	B  bool
	V  uint64
	N  int
	Ex []uint64
}

func (d Decision) String() string {
	switch d.K {
	case DBranch:
		if d.B {
			return "T"
		}
		return "F"
	case DValue:
		return fmt.Sprintf("v%d", d.V)
	case DExclude:
		return fmt.Sprintf("x%v", d.Ex)
	default:
		return fmt.Sprintf("c%d/%d", d.V, d.N)
	}
}

type Outcome int

const (
	OutOK           Outcome = iota // path ran to the end, all assertions discharged
	OutInfeasible                  // assumption infeasible / excluded alternative empty
	OutViolation                   // assertion failed with a model
	OutInconclusive                // budget, solver unknown, engine error
)

type Violation struct {
	What  string            // assertion label / panic description
	Site  string            // function where it arose
	Model map[string]uint64 // values of all nondet symbols
	Trace []string          // decision trace
	Stack []string
	Notes []string
}

// Path is the state of one execution.
type Path struct {
	w            *Worker
	prefix       []Decision
	pos          int
	trace        []Decision
	symbols      []*smt.Term
	symByName    map[string]*smt.Term
	nameCtr      map[string]int
	cmodel       smt.Model         // concolic model: satisfies the asserted path condition (nil = unknown)
	pendingModel map[string]uint64 // model valid at the end of the replayed prefix
	extra        map[string]uint64 // harness-level choices (verifrt.Choose), part of every model
	dom          map[string]domain
	entangled    map[string]bool
	allEntangled bool
	svCache      map[int64]*svInfo
	decided      map[int64]bool // outcome of branch terms already decided on this path
	hasDecided   map[int64]bool
	instrs       int64

	Outcome    Outcome
	Why        string
	Violations []*Violation
	Reached    map[string]bool
	Findings   map[string]bool // known findings exhibited
	Observed   []string
	Witness    map[string]uint64
	Notes      []string
	unknowns   int
	asserts    int
}

type abortPath struct{ reason string }

func (p *Path) abort(o Outcome, why string) {
	if p.Outcome == OutOK || o == OutInconclusive && p.Outcome == OutInfeasible {
		p.Outcome = o
		p.Why = why
	}
	panic(abortPath{why})
}

func (p *Path) fresh(name string, s smt.Sort) *smt.Term {
	n := p.nameCtr[name]
	p.nameCtr[name] = n + 1
	full := name
	if n > 0 {
		full = fmt.Sprintf("%s#%d", name, n)
	}
	full = sanitize(full)
	v := smt.Var(full, s)
	p.symbols = append(p.symbols, v)
	p.symByName[full] = v
	p.w.solver.Declare(v)
	return v
}

func sanitize(s string) string {
	var sb strings.Builder
	sb.WriteByte('|')
	for _, c := range s {
		if c == '|' || c == '\\' {
			c = '_'
		}
		sb.WriteRune(c)
	}
	sb.WriteByte('|')
	return sb.String()
}

type domain [4]uint64

func (d *domain) and(o *domain) { d[0] &= o[0]; d[1] &= o[1]; d[2] &= o[2]; d[3] &= o[3] }
func (d *domain) empty() bool   { return d[0]|d[1]|d[2]|d[3] == 0 }
func (d *domain) subsetOf(o *domain) bool {
	return d[0]&^o[0] == 0 && d[1]&^o[1] == 0 && d[2]&^o[2] == 0 && d[3]&^o[3] == 0
}

type svInfo struct {
	cut  bool      // term too large to analyse: its variables are unknown
	v    *smt.Term // the single small variable the term depends on (nil if none)
	vars []*smt.Term
	mask domain // values of v satisfying the term
}

func fullDomain(v *smt.Term) domain {
	n := 2
	if v.Sort.K == smt.SBV {
		n = 1 << uint(v.Sort.W)
	}
	var d domain
	for i := 0; i < n; i++ {
		d[i>>6] |= 1 << uint(i&63)
	}
	return d
}

// analyse finds the variables of a Bool term and, if it depends on exactly one
// variable of at most 8 bits (and no UF / float), its truth table.
func (p *Path) analyse(c *smt.Term) *svInfo {
	if inf, ok := p.svCache[c.ID]; ok {
		return inf
	}
	inf := &svInfo{}
	seen := map[*smt.Term]bool{}
	pure := true
	var walk func(t *smt.Term)
	walk = func(t *smt.Term) {
		if seen[t] || len(seen) > 5000 {
			return
		}
		seen[t] = true
		if t.Op == smt.OVar {
			inf.vars = append(inf.vars, t)
			return
		}
		if t.Op == smt.OUF || t.Sort.K == smt.SFP {
			pure = false
		}
		for _, a := range t.Args {
			walk(a)
		}
	}
	walk(c)
	if len(seen) > 5000 {
		// the walk was cut short: the variable list is incomplete
		pure = false
		inf.cut = true
	}
	if pure && len(inf.vars) == 1 {
		v := inf.vars[0]
		if v.Sort.K == smt.SBool || (v.Sort.K == smt.SBV && v.Sort.W <= 8) {
			inf.v = v
			n := 2
			if v.Sort.K == smt.SBV {
				n = 1 << uint(v.Sort.W)
			}
			m := smt.Model{}
			for i := 0; i < n; i++ {
				m[v.Name] = uint64(i)
				if smt.Eval(c, m) != 0 {
					inf.mask[i>>6] |= 1 << uint(i&63)
				}
			}
		}
	}
	p.svCache[c.ID] = inf
	return inf
}

// noteAsserted maintains the per-variable domains for an asserted constraint.
func (p *Path) noteAsserted(c *smt.Term) {
	if c.Op == smt.OConst {
		return
	}
	inf := p.analyse(c)
	if inf.v != nil {
		d, ok := p.dom[inf.v.Name]
		if !ok {
			d = fullDomain(inf.v)
		}
		d.and(&inf.mask)
		p.dom[inf.v.Name] = d
		return
	}
	if inf.cut {
		// conservative: from now on every variable may be constrained together with others
		p.allEntangled = true
	}
	for _, v := range inf.vars {
		p.entangled[v.Name] = true
	}
}

// quickDecide decides a single-variable condition from the domains alone:
// returns (tFeasible, fFeasible, decided).
func (p *Path) quickDecide(c *smt.Term) (bool, bool, bool) {
	inf := p.analyse(c)
	if inf.v == nil {
		return false, false, false
	}
	d, ok := p.dom[inf.v.Name]
	if !ok {
		d = fullDomain(inf.v)
	}
	inter := d
	inter.and(&inf.mask)
	if inter.empty() {
		return false, true, true // no remaining value satisfies c
	}
	if d.subsetOf(&inf.mask) {
		return true, false, true // every remaining value satisfies c
	}
	if !p.entangled[inf.v.Name] && !p.allEntangled {
		return true, true, true // all constraints on v are single-variable ones: exact
	}
	return false, false, false
}

func (p *Path) assertPC(c *smt.Term) {
	p.installPendingModel()
	p.w.solver.Assert(c)
	p.noteAsserted(c)
	if p.cmodel != nil {
		if !evaluable(c) || smt.Eval(c, p.cmodel) == 0 {
			p.cmodel = nil
		}
	}
}

// evaluable: can the term be evaluated under a model of its variables alone
// (no uninterpreted functions, no floats)?
func evaluable(t *smt.Term) bool {
	seen := map[*smt.Term]bool{}
	var walk func(t *smt.Term) bool
	walk = func(t *smt.Term) bool {
		if seen[t] {
			return true
		}
		seen[t] = true
		if t.Op == smt.OUF || t.Sort.K == smt.SFP {
			return false
		}
		for _, a := range t.Args {
			if !walk(a) {
				return false
			}
		}
		return true
	}
	return walk(t)
}

// modelNow reads the values of all symbols (call right after a Sat verdict).
func (p *Path) modelNow() smt.Model {
	vals, err := p.w.solver.GetValues(p.symbols)
	if err != nil {
		return nil
	}
	m := smt.Model{}
	for _, s := range p.symbols {
		m[s.Name] = vals[s]
	}
	return m
}

// checkSide: is pc ∧ lit satisfiable? Returns a model when it is.
func (p *Path) checkSide(lit *smt.Term) (smt.Result, smt.Model) {
	s := p.w.solver
	if b, ok := lit.ConstBool(); ok && !b {
		return smt.Unsat, nil
	}
	s.Push()
	s.Assert(lit)
	r := s.Check()
	var m smt.Model
	if r == smt.Sat && p.w.ex.Cfg.Concolic {
		m = p.modelNow()
	}
	s.Pop()
	return r, m
}

// installPendingModel: the model that came with this path's prefix is valid
// exactly at the end of the prefix, before anything else is asserted; it must be
// installed there (later assertions then validate it) or dropped.
func (p *Path) installPendingModel() {
	if p.pendingModel != nil && p.pos >= len(p.prefix) {
		p.cmodel = smt.Model(p.pendingModel)
		p.pendingModel = nil
	}
}

// branch decides a symbolic condition.
func (p *Path) branch(c *smt.Term) bool {
	if b, ok := c.ConstBool(); ok {
		return b
	}
	if p.hasDecided[c.ID] {
		return p.decided[c.ID]
	}
	if c.Op == smt.ONot && p.hasDecided[c.Args[0].ID] {
		return !p.decided[c.Args[0].ID]
	}
	var res bool
	if p.pos < len(p.prefix) {
		d := p.prefix[p.pos]
		p.pos++
		if d.K != DBranch {
			panic(engineError(fmt.Sprintf("replay divergence: expected branch, trace has %v at %d", d, p.pos-1)))
		}
		res = d.B
		p.trace = append(p.trace, d)
		if d.N == 0 { // not forced: constrain
			if res {
				p.assertPC(c)
			} else {
				p.assertPC(smt.Not(c))
			}
		}
	} else {
		p.installPendingModel()
		var rT, rF smt.Result
		var mT, mF smt.Model
		if tq, fq, ok := p.quickDecide(c); ok && p.w.ex.Cfg.Domains {
			rT, rF = smt.Unsat, smt.Unsat
			if tq {
				rT = smt.Sat
			}
			if fq {
				rF = smt.Sat
			}
			if p.cmodel != nil {
				// keep following the current model when it is still usable
				if smt.Eval(c, p.cmodel) != 0 {
					if tq {
						mT = p.cmodel
					} else {
						p.cmodel = nil
					}
				} else {
					if fq {
						mF = p.cmodel
					} else {
						p.cmodel = nil
					}
				}
			}
			p.w.ex.addQuick()
		} else if p.cmodel != nil && evaluable(c) {
			// concolic: the side the current model takes is feasible without asking
			if smt.Eval(c, p.cmodel) != 0 {
				rT, mT = smt.Sat, p.cmodel
				rF, mF = p.checkSide(smt.Not(c))
			} else {
				rF, mF = smt.Sat, p.cmodel
				rT, mT = p.checkSide(c)
			}
		} else {
			rT, mT = p.checkSide(c)
			if rT == smt.Unsat {
				rF = smt.Sat
			} else {
				rF, mF = p.checkSide(smt.Not(c))
			}
		}
		if rT == smt.Unknown || rF == smt.Unknown {
			p.unknowns++
			p.w.ex.noteInconclusive("solver unknown on a branch condition")
		}
		tOK, fOK := rT != smt.Unsat, rF != smt.Unsat
		switch {
		case tOK && fOK:
			// continue on the side of the current model (true if none), push the other
			res = true
			if p.cmodel != nil && mF != nil && sameModel(mF, p.cmodel) {
				res = false
			}
			var altM smt.Model
			if res {
				altM = mF
				if mT != nil {
					p.cmodel = mT
				} else {
					p.cmodel = nil
				}
			} else {
				altM = mT
			}
			alt := append(append([]Decision{}, p.trace...), Decision{K: DBranch, B: !res})
			p.w.ex.pushM(alt, altM)
			p.trace = append(p.trace, Decision{K: DBranch, B: res})
			keep := p.cmodel
			if res {
				p.assertPC(c)
			} else {
				p.assertPC(smt.Not(c))
			}
			p.cmodel = keep // the model was chosen to satisfy this literal
		case tOK:
			res = true
			p.trace = append(p.trace, Decision{K: DBranch, B: true, N: 1})
			if mT != nil {
				p.cmodel = mT
			}
		case fOK:
			res = false
			p.trace = append(p.trace, Decision{K: DBranch, B: false, N: 1})
			if mF != nil {
				p.cmodel = mF
			}
		default:
			p.abort(OutInconclusive, "both sides of a branch infeasible (path condition unsat?)")
		}
		p.w.ex.addDecision()
	}
	p.hasDecided[c.ID] = true
	p.decided[c.ID] = res
	return res
}

// choose enumerates 0..n-1 eagerly.
func (p *Path) choose(n int) int {
	if n <= 1 {
		return 0
	}
	if p.pos < len(p.prefix) {
		d := p.prefix[p.pos]
		p.pos++
		if d.K != DChoose || d.N != n {
			panic(engineError(fmt.Sprintf("replay divergence: expected choose/%d, trace has %v", n, d)))
		}
		if p.pos == len(p.prefix) && int(d.V)+1 < n {
			// the alternative after this one
			alt := append(append([]Decision{}, p.trace...), Decision{K: DChoose, V: d.V + 1, N: n})
			p.w.ex.push(alt)
		}
		p.trace = append(p.trace, d)
		return int(d.V)
	}
	alt := append(append([]Decision{}, p.trace...), Decision{K: DChoose, V: 1, N: n})
	p.w.ex.push(alt)
	p.trace = append(p.trace, Decision{K: DChoose, V: 0, N: n})
	p.w.ex.addDecision()
	return 0
}

// concretize forks over the feasible values of t (at most limit of them); the
// feasible values are enumerated by the solver right here, so no alternative is
// pushed that later turns out to be empty.
func (p *Path) concretize(t *smt.Term, limit int, what string) uint64 {
	if t.IsConst() {
		return t.U
	}
	s := p.w.solver
	if p.pos < len(p.prefix) {
		d := p.prefix[p.pos]
		p.pos++
		if d.K != DValue {
			panic(engineError(fmt.Sprintf("replay divergence: expected value, trace has %v", d)))
		}
		p.trace = append(p.trace, d)
		p.assertPC(smt.Eq(t, &smt.Term{Op: smt.OConst, Sort: t.Sort, U: d.V}))
		return d.V
	}
	p.installPendingModel()
	var vals []uint64
	s.Push()
	for len(vals) <= limit {
		r := s.Check()
		if r == smt.Unsat {
			break
		}
		if r == smt.Unknown {
			s.Pop()
			p.unknowns++
			p.abort(OutInconclusive, "solver unknown at concretisation of "+what)
		}
		got, err := s.GetValues([]*smt.Term{t})
		if err != nil {
			s.Pop()
			p.abort(OutInconclusive, "get-value failed: "+err.Error())
		}
		v := got[t]
		vals = append(vals, v)
		s.Assert(smt.Ne(t, &smt.Term{Op: smt.OConst, Sort: t.Sort, U: v}))
	}
	s.Pop()
	if len(vals) == 0 {
		p.abort(OutInconclusive, "path condition unsat at concretisation")
	}
	if len(vals) > limit {
		p.w.ex.noteInconclusive(fmt.Sprintf("concretisation cap %d exceeded for %s", limit, what))
		vals = vals[:limit]
	}
	for i := len(vals) - 1; i >= 1; i-- {
		alt := append(append([]Decision{}, p.trace...), Decision{K: DValue, V: vals[i]})
		p.w.ex.push(alt)
	}
	v := vals[0]
	p.trace = append(p.trace, Decision{K: DValue, V: v})
	if len(vals) > 1 {
		p.assertPC(smt.Eq(t, &smt.Term{Op: smt.OConst, Sort: t.Sort, U: v}))
	}
	p.w.ex.addDecision()
	return v
}

func (p *Path) model() (map[string]uint64, bool) {
	vals, err := p.w.solver.GetValues(p.symbols)
	if err != nil {
		return nil, false
	}
	m := map[string]uint64{}
	for _, s := range p.symbols {
		m[strings.Trim(s.Name, "|")] = vals[s]
	}
	for k, v := range p.extra {
		m[k] = v
	}
	return m, true
}

// check asserts that c holds on every value of the path; returns true if discharged.
func (p *Path) check(c *smt.Term, what string, fr *frame) bool {
	p.asserts++
	p.w.ex.addObligation()
	if b, ok := c.ConstBool(); ok && b {
		p.w.ex.addDischarged()
		return true
	}
	s := p.w.solver
	nc := smt.Not(c)
	s.Push()
	s.Assert(nc)
	r := s.Check()
	if r == smt.Sat {
		m, ok := p.model()
		s.Pop()
		if !ok {
			p.abort(OutInconclusive, "could not read model for a failed assertion")
		}
		v := &Violation{What: what, Model: m, Trace: traceStrings(p.trace), Notes: append([]string{}, p.Observed...)}
		if fr != nil {
			v.Site = fr.fn.String()
			v.Stack = fr.stack()
		}
		p.Violations = append(p.Violations, v)
		if p.Outcome == OutOK {
			p.Outcome = OutViolation
			p.Why = what
		}
		return false
	}
	s.Pop()
	if r == smt.Unknown {
		p.unknowns++
		p.w.ex.noteInconclusive("solver unknown on assertion " + what)
		return false
	}
	p.w.ex.addDischarged()
	return true
}

func traceStrings(t []Decision) []string {
	out := make([]string, len(t))
	for i, d := range t {
		out[i] = d.String()
	}
	return out
}

func sortedKeys(m map[string]bool) []string {
	var ks []string
	for k := range m {
		ks = append(ks, k)
	}
	sort.Strings(ks)
	return ks
}

func sameModel(a, b smt.Model) bool {
	// identity of the underlying map
	if len(a) != len(b) {
		return false
	}
	for k, v := range a {
		if bv, ok := b[k]; !ok || bv != v {
			return false
		}
		break
	}
	return fmt.Sprintf("%p", a) == fmt.Sprintf("%p", b)
}
