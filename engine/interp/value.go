package interp

import (
	"fmt"
	"go/types"
	"strings"

	"gosmt/smt"

	"golang.org/x/tools/go/ssa"
)

// Value is the dynamic value of an SSA value:
//
//	bool / intN / uintN / floatN   *smt.Term (constant or symbolic)
//	string                         Str
//	*T                             *Value (nil pointer = (*Value)(nil)) or *SymPtr
//	struct                         Struct
//	array                          Array
//	slice                          []Value
//	map                            *Map
//	chan                           *Chan
//	interface                      Iface
//	func                           *ssa.Function | *Closure | *ssa.Builtin
//	tuple                          Tuple
type Value = interface{}

type Struct []Value
type Array []Value
type Tuple []Value

type Iface struct {
	T types.Type // dynamic type; nil for the nil interface
	V Value
}

type Closure struct {
	Fn  *ssa.Function
	Env []Value
}

// SymPtr is the address of an element of a slice/array selected by a symbolic
// index (elements are scalars).
type SymPtr struct {
	Cells []Value // backing cells: &Cells[i]
	Idx   *smt.Term
}

// DataPtr is the result of unsafe.SliceData / unsafe.StringData.
type DataPtr struct{ Cells []Value }

// Str is a string or the content of a string: concrete length, bytes concrete
// or symbolic.
type Str struct {
	S   string
	Sym []*smt.Term // if non-nil: len(Sym) is the length, S unused
}

func (s Str) Len() int {
	if s.Sym != nil {
		return len(s.Sym)
	}
	return len(s.S)
}

func (s Str) At(i int) *smt.Term {
	if s.Sym != nil {
		return s.Sym[i]
	}
	return smt.BVC(8, uint64(s.S[i]))
}

func (s Str) IsConcrete() bool { return s.Sym == nil }

func (s Str) Terms() []*smt.Term {
	if s.Sym != nil {
		return s.Sym
	}
	ts := make([]*smt.Term, len(s.S))
	for i := 0; i < len(s.S); i++ {
		ts[i] = smt.BVC(8, uint64(s.S[i]))
	}
	return ts
}

func (s Str) Slice(lo, hi int) Str {
	if s.Sym != nil {
		return MkStr(s.Sym[lo:hi])
	}
	return Str{S: s.S[lo:hi]}
}

// MkStr builds a Str from byte terms, collapsing to a concrete string when possible.
func MkStr(ts []*smt.Term) Str {
	conc := true
	for _, t := range ts {
		if !t.IsConst() {
			conc = false
			break
		}
	}
	if conc {
		b := make([]byte, len(ts))
		for i, t := range ts {
			b[i] = byte(t.U)
		}
		return Str{S: string(b)}
	}
	cp := make([]*smt.Term, len(ts))
	copy(cp, ts)
	return Str{Sym: cp}
}

func ConcatStr(a, b Str) Str {
	if a.Sym == nil && b.Sym == nil {
		return Str{S: a.S + b.S}
	}
	if a.Len() == 0 {
		return b
	}
	if b.Len() == 0 {
		return a
	}
	ts := append(append([]*smt.Term{}, a.Terms()...), b.Terms()...)
	return Str{Sym: ts}
}

func (s Str) String() string {
	if s.Sym == nil {
		return s.S
	}
	var sb strings.Builder
	for _, t := range s.Sym {
		if t.IsConst() {
			sb.WriteByte(byte(t.U))
		} else {
			sb.WriteString("{" + smt.Ref(t) + "}")
		}
	}
	return sb.String()
}

// ---------------------------------------------------------------- maps

type Map struct {
	KeyT  types.Type
	Keys  []Value
	Vals  []Value
	index map[string]int // concrete keys -> position
	dead  []bool
	n     int
	iters []*mapIter // iterators handed out (for the concurrent iteration/write check)
}

func newMap(kt types.Type) *Map { return &Map{KeyT: kt, index: map[string]int{}} }

func (m *Map) Len() int { return m.n }

// concreteKey returns a canonical string for fully concrete, hashable keys.
func concreteKey(v Value) (string, bool) {
	switch v := v.(type) {
	case *smt.Term:
		if v.IsConst() {
			return fmt.Sprintf("t%d:%d:%d", v.Sort.K, v.Sort.W, v.U), true
		}
		return "", false
	case Str:
		if v.IsConcrete() {
			return "s" + v.S, true
		}
		return "", false
	case *Value:
		return fmt.Sprintf("p%p", v), true
	case *Chan:
		return fmt.Sprintf("c%p", v), true
	case Iface:
		if v.T == nil {
			return "inil", true
		}
		k, ok := concreteKey(v.V)
		if !ok {
			return "", false
		}
		return "i" + v.T.String() + "/" + k, true
	case Struct:
		var sb strings.Builder
		sb.WriteString("S{")
		for _, f := range v {
			k, ok := concreteKey(f)
			if !ok {
				return "", false
			}
			fmt.Fprintf(&sb, "%d:%s,", len(k), k)
		}
		sb.WriteString("}")
		return sb.String(), true
	case Array:
		var sb strings.Builder
		sb.WriteString("A{")
		for _, f := range v {
			k, ok := concreteKey(f)
			if !ok {
				return "", false
			}
			fmt.Fprintf(&sb, "%d:%s,", len(k), k)
		}
		sb.WriteString("}")
		return sb.String(), true
	}
	return "", false
}

// ---------------------------------------------------------------- zero / copy

func intWidth(t *types.Basic) (w int, signed bool) {
	switch t.Kind() {
	case types.Int8:
		return 8, true
	case types.Int16:
		return 16, true
	case types.Int32:
		return 32, true
	case types.Int64, types.Int, types.UntypedInt, types.UntypedRune:
		return 64, true
	case types.Uint8:
		return 8, false
	case types.Uint16:
		return 16, false
	case types.Uint32:
		return 32, false
	case types.Uint64, types.Uint, types.Uintptr:
		return 64, false
	}
	return 0, false
}

func isInteger(t types.Type) (*types.Basic, bool) {
	b, ok := t.Underlying().(*types.Basic)
	if !ok {
		return nil, false
	}
	return b, b.Info()&types.IsInteger != 0
}

func zero(t types.Type) Value {
	switch t := t.(type) {
	case *types.Basic:
		if t.Kind() == types.UntypedNil {
			panic("untyped nil has no zero value")
		}
		if t.Info()&types.IsBoolean != 0 {
			return smt.False
		}
		if t.Info()&types.IsInteger != 0 {
			w, _ := intWidth(t)
			return smt.BVC(w, 0)
		}
		if t.Info()&types.IsFloat != 0 {
			return smt.FPC(0)
		}
		if t.Info()&types.IsString != 0 {
			return Str{}
		}
		if t.Kind() == types.UnsafePointer {
			return (*Value)(nil)
		}
		if t.Info()&types.IsComplex != 0 {
			panic(engineError("complex numbers are not supported"))
		}
	case *types.Pointer:
		return (*Value)(nil)
	case *types.Array:
		a := make(Array, t.Len())
		for i := range a {
			a[i] = zero(t.Elem())
		}
		return a
	case *types.Named, *types.Alias:
		return zero(t.Underlying())
	case *types.Interface:
		return Iface{}
	case *types.Slice:
		return []Value(nil)
	case *types.Struct:
		s := make(Struct, t.NumFields())
		for i := range s {
			s[i] = zero(t.Field(i).Type())
		}
		return s
	case *types.Tuple:
		if t.Len() == 1 {
			return zero(t.At(0).Type())
		}
		s := make(Tuple, t.Len())
		for i := range s {
			s[i] = zero(t.At(i).Type())
		}
		return s
	case *types.Chan:
		return (*Chan)(nil)
	case *types.Map:
		return (*Map)(nil)
	case *types.Signature:
		return (*ssa.Function)(nil)
	}
	panic(engineError(fmt.Sprintf("zero: unexpected type %T %v", t, t)))
}

// copyVal returns a copy of v (structs and arrays are values).
func copyVal(v Value) Value {
	switch v := v.(type) {
	case Struct:
		c := make(Struct, len(v))
		for i, f := range v {
			c[i] = copyVal(f)
		}
		return c
	case Array:
		c := make(Array, len(v))
		for i, f := range v {
			c[i] = copyVal(f)
		}
		return c
	case Tuple:
		panic("copyVal of tuple")
	}
	return v
}

func isNilFunc(v Value) bool {
	switch f := v.(type) {
	case *ssa.Function:
		return f == nil
	case *Closure:
		return f == nil
	case nil:
		return true
	}
	return false
}

// engineError is raised (as a Go panic) for anything the engine cannot model;
// it makes the path inconclusive, never a violation.
type engineError string

func (e engineError) Error() string { return string(e) }
