package interp

import (
	"time"
	"fmt"
	"go/types"
	"math"
	"strconv"
	"strings"

	"gosmt/smt"

	"golang.org/x/tools/go/ssa"
)

type intrinsic func(fr *frame, args []Value) Value

var intrinsics = map[string]intrinsic{}

const rtPkg = "github.com/mimecast/dtail/internal/verifrt."

func reg(name string, f intrinsic) { intrinsics[name] = f }

func strArg(v Value) Str { return v.(Str) }

func concStr(fr *frame, v Value, what string) string {
	s := v.(Str)
	if s.IsConcrete() {
		return s.S
	}
	// concretise every byte
	b := make([]byte, s.Len())
	for i := range b {
		b[i] = byte(fr.w.path.concretize(s.At(i), 256, what))
	}
	return string(b)
}

func termOf(v Value) *smt.Term { return v.(*smt.Term) }

func bytesOf(v Value) []*smt.Term {
	switch x := v.(type) {
	case Str:
		return x.Terms()
	case []Value:
		ts := make([]*smt.Term, len(x))
		for i, e := range x {
			ts[i] = e.(*smt.Term)
		}
		return ts
	}
	panic(engineError(fmt.Sprintf("bytesOf %T", v)))
}

func structFieldIndex(t types.Type, name string) int {
	st := t.Underlying().(*types.Struct)
	for i := 0; i < st.NumFields(); i++ {
		if st.Field(i).Name() == name {
			return i
		}
	}
	panic(engineError("no field " + name + " in " + t.String()))
}

func recvElemType(fr *frame) types.Type {
	return deref(fr.fn.Signature.Recv().Type())
}

// indexOfTerm: position of the first occurrence of sub in s, or -1, as an int term.
func indexOfTerm(s, sub []*smt.Term) *smt.Term {
	n, m := len(s), len(sub)
	res := intC(-1)
	for i := n - m; i >= 0; i-- {
		c := smt.True
		for j := 0; j < m; j++ {
			c = smt.And(c, smt.Eq(s[i+j], sub[j]))
		}
		res = smt.Ite(c, intC(int64(i)), res)
	}
	return res
}

func lastIndexOfTerm(s, sub []*smt.Term) *smt.Term {
	n, m := len(s), len(sub)
	res := intC(-1)
	for i := 0; i+m <= n; i++ {
		c := smt.True
		for j := 0; j < m; j++ {
			c = smt.And(c, smt.Eq(s[i+j], sub[j]))
		}
		res = smt.Ite(c, intC(int64(i)), res)
	}
	return res
}

func countByte(s []*smt.Term, c *smt.Term) *smt.Term {
	res := intC(0)
	for _, b := range s {
		res = smt.Add(res, smt.Ite(smt.Eq(b, c), intC(1), intC(0)))
	}
	return res
}

func allConst(ts []*smt.Term) bool {
	for _, t := range ts {
		if !t.IsConst() {
			return false
		}
	}
	return true
}

func constBytes(ts []*smt.Term) []byte {
	b := make([]byte, len(ts))
	for i, t := range ts {
		b[i] = byte(t.U)
	}
	return b
}

func mkErr(fr *frame, msg Str) Value {
	pkg := fr.w.prog.ImportedPackage("errors")
	if pkg == nil {
		panic(engineError("errors package not loaded"))
	}
	fr.w.ensureInit(pkg)
	t := pkg.Type("errorString").Type()
	var cell Value = Struct{msg}
	return Iface{T: types.NewPointer(t), V: &cell}
}

func init() {
	// ------------------------------------------------------------ verifrt
	reg(rtPkg+"Byte", func(fr *frame, a []Value) Value {
		return fr.w.path.fresh(concStr(fr, a[0], "name"), smt.BV(8))
	})
	reg(rtPkg+"Bool", func(fr *frame, a []Value) Value {
		return fr.w.path.fresh(concStr(fr, a[0], "name"), smt.Bool)
	})
	reg(rtPkg+"Int", func(fr *frame, a []Value) Value {
		return fr.w.path.fresh(concStr(fr, a[0], "name"), smt.BV(64))
	})
	reg(rtPkg+"Uint64", func(fr *frame, a []Value) Value {
		return fr.w.path.fresh(concStr(fr, a[0], "name"), smt.BV(64))
	})
	reg(rtPkg+"Int32", func(fr *frame, a []Value) Value {
		return fr.w.path.fresh(concStr(fr, a[0], "name"), smt.BV(32))
	})
	reg(rtPkg+"Float", func(fr *frame, a []Value) Value {
		v := fr.w.path.fresh(concStr(fr, a[0], "name"), smt.FP64)
		fr.w.path.assertPC(smt.Not(smt.FIsNaN(v)))
		return v
	})
	reg(rtPkg+"IntRange", func(fr *frame, a []Value) Value {
		v := fr.w.path.fresh(concStr(fr, a[0], "name"), smt.BV(64))
		lo, hi := termOf(a[1]), termOf(a[2])
		fr.w.assume(fr, smt.And(smt.SLe(lo, v), smt.SLe(v, hi)))
		return v
	})
	reg(rtPkg+"Bytes", func(fr *frame, a []Value) Value {
		name := concStr(fr, a[0], "name")
		n := int(fr.concInt(a[1], "Bytes n"))
		out := make([]Value, n)
		for i := range out {
			out[i] = fr.w.path.fresh(fmt.Sprintf("%s[%d]", name, i), smt.BV(8))
		}
		return out
	})
	reg(rtPkg+"String", func(fr *frame, a []Value) Value {
		name := concStr(fr, a[0], "name")
		n := int(fr.concInt(a[1], "String n"))
		ts := make([]*smt.Term, n)
		for i := range ts {
			ts[i] = fr.w.path.fresh(fmt.Sprintf("%s[%d]", name, i), smt.BV(8))
		}
		if n == 0 {
			return Str{}
		}
		return Str{Sym: ts}
	})
	// ByteIn(name, set): a fresh byte constrained to the bytes of set (no forking)
	reg(rtPkg+"ByteIn", func(fr *frame, a []Value) Value {
		v := fr.w.path.fresh(concStr(fr, a[0], "name"), smt.BV(8))
		set := concStr(fr, a[1], "set")
		fr.w.path.assertPC(byteInSet(v, set))
		return v
	})
	reg(rtPkg+"StringIn", func(fr *frame, a []Value) Value {
		name := concStr(fr, a[0], "name")
		n := int(fr.concInt(a[1], "StringIn n"))
		set := concStr(fr, a[2], "set")
		ts := make([]*smt.Term, n)
		for i := range ts {
			ts[i] = fr.w.path.fresh(fmt.Sprintf("%s[%d]", name, i), smt.BV(8))
			fr.w.path.assertPC(byteInSet(ts[i], set))
		}
		if n == 0 {
			return Str{}
		}
		return Str{Sym: ts}
	})
	reg(rtPkg+"Choose", func(fr *frame, a []Value) Value {
		n := int(fr.concInt(a[1], "Choose n"))
		c := fr.w.path.choose(n)
		p := fr.w.path
		key := "choose:" + concStr(fr, a[0], "name")
		k := p.nameCtr[key]
		p.nameCtr[key] = k + 1
		if k > 0 {
			key = fmt.Sprintf("%s#%d", key, k)
		}
		p.extra[key] = uint64(c)
		return intC(int64(c))
	})
	reg(rtPkg+"Concretize", func(fr *frame, a []Value) Value {
		return intC(fr.concInt(a[0], "Concretize"))
	})
	reg(rtPkg+"Assume", func(fr *frame, a []Value) Value {
		fr.w.assume(fr, termOf(a[0]))
		return nil
	})
	reg(rtPkg+"Assert", func(fr *frame, a []Value) Value {
		what := concStr(fr, a[1], "label")
		if !fr.w.path.check(termOf(a[0]), what, fr.caller) {
			if fr.w.path.Outcome == OutViolation {
				panic(abortPath{"violation"})
			}
		}
		return nil
	})
	reg(rtPkg+"Reach", func(fr *frame, a []Value) Value {
		fr.w.path.Reached[concStr(fr, a[0], "label")] = true
		return nil
	})
	reg(rtPkg+"Known", func(fr *frame, a []Value) Value {
		return smt.BoolC(fr.w.ex.Known(concStr(fr, a[0], "id")))
	})
	// Finding(id, c): this path exhibits known finding id; c must hold for all values.
	reg(rtPkg+"Finding", func(fr *frame, a []Value) Value {
		id := concStr(fr, a[0], "id")
		p := fr.w.path
		if !fr.w.ex.Known(id) {
			if !p.check(smt.False, "behaviour of finding "+id+" observed, but "+id+" is not listed as a known finding", fr.caller) {
				panic(abortPath{"violation"})
			}
			return nil
		}
		if !p.check(termOf(a[1]), "behaviour differs from known finding "+id, fr.caller) {
			if p.Outcome == OutViolation {
				panic(abortPath{"violation"})
			}
		}
		p.Findings[id] = true
		return nil
	})
	reg(rtPkg+"KnownPanic", func(fr *frame, a []Value) Value {
		id := concStr(fr, a[0], "id")
		var subs []string
		for _, s := range a[1].([]Value) {
			subs = append(subs, concStr(fr, s, "substr"))
		}
		fr.w.knownPanics = append(fr.w.knownPanics, knownPanic{id, subs})
		return nil
	})
	reg(rtPkg+"Observe", func(fr *frame, a []Value) Value {
		var sb strings.Builder
		for i, v := range a[0].([]Value) {
			if i > 0 {
				sb.WriteByte(' ')
			}
			sb.WriteString(fr.w.show(v.(Iface).V))
		}
		fr.w.path.Observed = append(fr.w.path.Observed, sb.String())
		return nil
	})
	reg(rtPkg+"Yield", func(fr *frame, a []Value) Value { fr.w.sched.point(fr.g); return nil })
	reg(rtPkg+"Sleep", func(fr *frame, a []Value) Value {
		fr.w.sched.sleepH(fr.g, fr.concInt(a[0], "sleep duration"), true)
		return nil
	})
	reg(rtPkg+"NowNs", func(fr *frame, a []Value) Value { return intC(fr.w.sched.now) })
	reg(rtPkg+"AllowDeadlock", func(fr *frame, a []Value) Value { fr.w.allowDeadlock = true; return nil })
	reg(rtPkg+"Symbolic", func(fr *frame, a []Value) Value { return smt.True })
	reg(rtPkg+"IsConcrete", func(fr *frame, a []Value) Value {
		switch x := a[0].(Iface).V.(type) {
		case *smt.Term:
			return smt.BoolC(x.IsConst())
		case Str:
			return smt.BoolC(x.IsConcrete())
		}
		return smt.True
	})
	// Ite(c, a, b) for ints and bytes without forking
	reg(rtPkg+"IteInt", func(fr *frame, a []Value) Value { return smt.Ite(termOf(a[0]), termOf(a[1]), termOf(a[2])) })
	reg(rtPkg+"IteByte", func(fr *frame, a []Value) Value { return smt.Ite(termOf(a[0]), termOf(a[1]), termOf(a[2])) })
	reg(rtPkg+"IteBool", func(fr *frame, a []Value) Value { return smt.Ite(termOf(a[0]), termOf(a[1]), termOf(a[2])) })
	// UFBool(name, key string): uninterpreted predicate over the bytes of key (fixed length per name)
	reg(rtPkg+"UFBool", func(fr *frame, a []Value) Value {
		name := concStr(fr, a[0], "name")
		key := strArg(a[1])
		ts := key.Terms()
		if len(ts) == 0 {
			return fr.w.path.ufConst(name + "_0")
		}
		return smt.UF(sanitize(fmt.Sprintf("%s_%d", name, len(ts))), smt.Bool, ts...)
	})
	reg(rtPkg+"Crash", func(fr *frame, a []Value) Value {
		panic(abortPath{"crash point"})
	})

	// ------------------------------------------------------------ runtime / os
	reg("runtime.Caller", func(fr *frame, a []Value) Value {
		return Tuple{smt.BVC(64, 0), Str{S: "file.go"}, intC(1), smt.True}
	})
	reg("runtime.Gosched", func(fr *frame, a []Value) Value { fr.w.sched.point(fr.g); return nil })
	reg("runtime.NumGoroutine", func(fr *frame, a []Value) Value { return intC(int64(len(fr.w.sched.gs))) })
	reg("runtime.NumCPU", func(fr *frame, a []Value) Value { return intC(4) })
	reg("runtime.NumCgoCall", func(fr *frame, a []Value) Value { return intC(0) })
	reg("runtime.GC", func(fr *frame, a []Value) Value { return nil })
	reg("runtime.KeepAlive", func(fr *frame, a []Value) Value { return nil })
	reg("runtime.SetFinalizer", func(fr *frame, a []Value) Value { return nil })
	// the process environment: empty at the start of every path, settable by the harness
	reg("os.Getenv", func(fr *frame, a []Value) Value {
		if v, ok := fr.w.env[concStr(fr, a[0], "env key")]; ok {
			return v
		}
		return Str{}
	})
	reg("os.LookupEnv", func(fr *frame, a []Value) Value {
		if v, ok := fr.w.env[concStr(fr, a[0], "env key")]; ok {
			return Tuple{v, smt.True}
		}
		return Tuple{Str{}, smt.False}
	})
	reg("os.Setenv", func(fr *frame, a []Value) Value {
		if fr.w.env == nil {
			fr.w.env = map[string]Str{}
		}
		fr.w.env[concStr(fr, a[0], "env key")] = a[1].(Str)
		return Iface{}
	})
	reg("os.Unsetenv", func(fr *frame, a []Value) Value {
		delete(fr.w.env, concStr(fr, a[0], "env key"))
		return Iface{}
	})
	reg("os.Getpid", func(fr *frame, a []Value) Value { return intC(4242) })
	reg("os.Hostname", func(fr *frame, a []Value) Value { return Tuple{Str{S: "host"}, Iface{}} })
	reg("os.Exit", func(fr *frame, a []Value) Value {
		code := fr.concInt(a[0], "exit code")
		fr.w.path.Observed = append(fr.w.path.Observed, fmt.Sprintf("os.Exit(%d)", code))
		fr.w.exited(fr, int(code))
		return nil
	})

	// ------------------------------------------------------------ sync
	reg("(*sync.Mutex).Lock", func(fr *frame, a []Value) Value { fr.w.muLock(fr, a[0].(*Value)); return nil })
	reg("(*sync.Mutex).Unlock", func(fr *frame, a []Value) Value { fr.w.muUnlock(fr, a[0].(*Value)); return nil })
	reg("(*sync.Mutex).TryLock", func(fr *frame, a []Value) Value {
		m := fr.w.sched.mutex(a[0].(*Value))
		if m.locked {
			return smt.False
		}
		m.locked = true
		return smt.True
	})
	reg("(*sync.RWMutex).Lock", func(fr *frame, a []Value) Value {
		s := fr.w.sched
		s.point(fr.g)
		m := s.mutex(a[0].(*Value))
		s.waitUntil(fr.g, "RWMutex.Lock", func() bool { return !m.locked && m.readers == 0 })
		m.locked = true
		fr.g.xlocks++
		return nil
	})
	reg("(*sync.RWMutex).Unlock", func(fr *frame, a []Value) Value {
		m := fr.w.sched.mutex(a[0].(*Value))
		if !m.locked {
			fr.rtPanic("sync: Unlock of unlocked RWMutex")
		}
		m.locked = false
		if fr.g.xlocks > 0 {
			fr.g.xlocks--
		}
		return nil
	})
	reg("(*sync.RWMutex).RLock", func(fr *frame, a []Value) Value {
		s := fr.w.sched
		s.point(fr.g)
		m := s.mutex(a[0].(*Value))
		s.waitUntil(fr.g, "RWMutex.RLock", func() bool { return !m.locked })
		m.readers++
		fr.g.rlocks++
		return nil
	})
	reg("(*sync.RWMutex).RUnlock", func(fr *frame, a []Value) Value {
		m := fr.w.sched.mutex(a[0].(*Value))
		if m.readers <= 0 {
			fr.rtPanic("sync: RUnlock of unlocked RWMutex")
		}
		m.readers--
		if fr.g.rlocks > 0 {
			fr.g.rlocks--
		}
		return nil
	})
	reg("(*sync.WaitGroup).Add", func(fr *frame, a []Value) Value {
		c := fr.w.sched.waitGroup(a[0].(*Value))
		*c += fr.concInt(a[1], "WaitGroup.Add delta")
		if *c < 0 {
			fr.rtPanic("sync: negative WaitGroup counter")
		}
		return nil
	})
	reg("(*sync.WaitGroup).Done", func(fr *frame, a []Value) Value {
		s := fr.w.sched
		s.point(fr.g)
		c := s.waitGroup(a[0].(*Value))
		*c--
		if *c < 0 {
			fr.rtPanic("sync: negative WaitGroup counter")
		}
		return nil
	})
	reg("(*sync.WaitGroup).Wait", func(fr *frame, a []Value) Value {
		s := fr.w.sched
		s.point(fr.g)
		c := s.waitGroup(a[0].(*Value))
		s.waitUntil(fr.g, "WaitGroup.Wait", func() bool { return *c == 0 })
		return nil
	})
	reg("(*sync.Pool).Get", func(fr *frame, a []Value) Value {
		s := fr.w.sched
		p := a[0].(*Value)
		if l := s.pools[p]; len(l) > 0 {
			v := l[len(l)-1]
			s.pools[p] = l[:len(l)-1]
			return v
		}
		newf := (*p).(Struct)[structFieldIndex(recvElemType(fr), "New")]
		if isNilFunc(newf) {
			return Iface{}
		}
		return fr.w.call(fr, fr.callpos, newf, nil)
	})
	reg("(*sync.Pool).Put", func(fr *frame, a []Value) Value {
		s := fr.w.sched
		p := a[0].(*Value)
		if a[1].(Iface).T == nil {
			return nil
		}
		s.pools[p] = append(s.pools[p], a[1])
		return nil
	})

	// ------------------------------------------------------------ sync/atomic
	for _, ty := range []string{"Int32", "Int64", "Uint32", "Uint64", "Uintptr"} {
		ty := ty
		reg("sync/atomic.Load"+ty, func(fr *frame, a []Value) Value { fr.w.sched.point(fr.g); return fr.load(a[0]) })
		reg("sync/atomic.Store"+ty, func(fr *frame, a []Value) Value { fr.w.sched.point(fr.g); fr.store(a[0], a[1]); return nil })
		reg("sync/atomic.Add"+ty, func(fr *frame, a []Value) Value {
			fr.w.sched.point(fr.g)
			v := smt.Add(fr.load(a[0]).(*smt.Term), termOf(a[1]))
			fr.store(a[0], v)
			return v
		})
		reg("sync/atomic.Swap"+ty, func(fr *frame, a []Value) Value {
			fr.w.sched.point(fr.g)
			old := fr.load(a[0])
			fr.store(a[0], a[1])
			return old
		})
		reg("sync/atomic.CompareAndSwap"+ty, func(fr *frame, a []Value) Value {
			fr.w.sched.point(fr.g)
			old := fr.load(a[0]).(*smt.Term)
			if fr.w.path.branch(smt.Eq(old, termOf(a[1]))) {
				fr.store(a[0], a[2])
				return smt.True
			}
			return smt.False
		})
	}
	reg("sync/atomic.LoadPointer", func(fr *frame, a []Value) Value { return fr.load(a[0]) })
	reg("sync/atomic.StorePointer", func(fr *frame, a []Value) Value { fr.store(a[0], a[1]); return nil })
	reg("sync/atomic.SwapPointer", func(fr *frame, a []Value) Value {
		old := fr.load(a[0])
		fr.store(a[0], a[1])
		return old
	})
	reg("sync/atomic.CompareAndSwapPointer", func(fr *frame, a []Value) Value {
		old := fr.load(a[0])
		if old == a[1] {
			fr.store(a[0], a[2])
			return smt.True
		}
		return smt.False
	})
	reg("(*sync/atomic.Value).Load", func(fr *frame, a []Value) Value {
		fr.w.sched.point(fr.g)
		return (*a[0].(*Value)).(Struct)[0]
	})
	reg("(*sync/atomic.Value).Store", func(fr *frame, a []Value) Value {
		fr.w.sched.point(fr.g)
		if a[1].(Iface).T == nil {
			fr.rtPanic("sync/atomic: store of nil value into Value")
		}
		(*a[0].(*Value)).(Struct)[0] = a[1]
		return nil
	})
	reg("(*sync/atomic.Value).Swap", func(fr *frame, a []Value) Value {
		old := (*a[0].(*Value)).(Struct)[0]
		(*a[0].(*Value)).(Struct)[0] = a[1]
		return old
	})
	reg("(*sync/atomic.Value).CompareAndSwap", func(fr *frame, a []Value) Value {
		old := (*a[0].(*Value)).(Struct)[0].(Iface)
		t := fr.eq(types.NewInterfaceType(nil, nil), old, a[1])
		if fr.w.path.branch(t) {
			(*a[0].(*Value)).(Struct)[0] = a[2]
			return smt.True
		}
		return smt.False
	})

	// ------------------------------------------------------------ time
	reg("time.Now", func(fr *frame, a []Value) Value { return fr.w.timeValue() })
	reg("time.Sleep", func(fr *frame, a []Value) Value {
		fr.w.sched.sleep(fr.g, fr.concInt(a[0], "sleep duration"))
		return nil
	})
	reg("time.After", func(fr *frame, a []Value) Value {
		d := fr.concInt(a[0], "time.After duration")
		ch := fr.w.newChan(1, fr.fn.Signature.Results().At(0).Type().Underlying().(*types.Chan).Elem())
		w := fr.w
		// a goroutine that keeps asking for zero-duration timers at one instant of virtual time
		// spins (CPU exhaustion, which no property here is about); after 20 rounds its next
		// timer never fires, so that the rest of the program can be explored
		if d <= 0 && fr.g != nil {
			if fr.g.zeroTimerAt == w.sched.now {
				fr.g.zeroTimers++
			} else {
				fr.g.zeroTimerAt, fr.g.zeroTimers = w.sched.now, 1
			}
			if fr.g.zeroTimers > 20 {
				w.ex.noteOnce("a goroutine spinning on zero-duration timers was parked after 20 rounds (" + fr.fn.String() + ")")
				return ch
			}
		}
		w.sched.addTimer(d, func() {
			if len(ch.buf) < ch.cap {
				w.timerSend(ch, w.timeValue())
			}
		})
		return ch
	})
	reg("time.Tick", func(fr *frame, a []Value) Value {
		d := fr.concInt(a[0], "time.Tick duration")
		ch := fr.w.newChan(1, fr.fn.Signature.Results().At(0).Type().Underlying().(*types.Chan).Elem())
		fr.w.startTicker(ch, d, nil)
		return ch
	})
	reg("time.NewTimer", func(fr *frame, a []Value) Value {
		d := fr.concInt(a[0], "NewTimer duration")
		tt := deref(fr.fn.Signature.Results().At(0).Type())
		st := zero(tt).(Struct)
		ci := structFieldIndex(tt, "C")
		ch := fr.w.newChan(1, tt.Underlying().(*types.Struct).Field(ci).Type().Underlying().(*types.Chan).Elem())
		st[ci] = ch
		var cell Value = st
		w := fr.w
		t := w.sched.addTimer(d, func() {
			if len(ch.buf) < ch.cap {
				w.timerSend(ch, w.timeValue())
			}
		})
		w.timerOf(&cell, t, ch)
		return &cell
	})
	reg("time.NewTicker", func(fr *frame, a []Value) Value {
		d := fr.concInt(a[0], "NewTicker duration")
		if d <= 0 {
			fr.rtPanic("non-positive interval for NewTicker")
		}
		tt := deref(fr.fn.Signature.Results().At(0).Type())
		st := zero(tt).(Struct)
		ci := structFieldIndex(tt, "C")
		ch := fr.w.newChan(1, tt.Underlying().(*types.Struct).Field(ci).Type().Underlying().(*types.Chan).Elem())
		st[ci] = ch
		var cell Value = st
		fr.w.startTicker(ch, d, &cell)
		return &cell
	})
	reg("(*time.Ticker).Stop", func(fr *frame, a []Value) Value {
		if ti := fr.w.timers[a[0].(*Value)]; ti != nil {
			ti.t.stopped = true
			ti.stopped = true
		}
		return nil
	})
	reg("(*time.Timer).Stop", func(fr *frame, a []Value) Value {
		ti := fr.w.timers[a[0].(*Value)]
		if ti == nil {
			return smt.False
		}
		active := !ti.t.fired && !ti.t.stopped
		ti.t.stopped = true
		return smt.BoolC(active)
	})
	reg("(*time.Timer).Reset", func(fr *frame, a []Value) Value {
		ti := fr.w.timers[a[0].(*Value)]
		if ti == nil {
			panic(engineError("Reset of unknown timer"))
		}
		active := !ti.t.fired && !ti.t.stopped
		ti.t.stopped = true
		d := fr.concInt(a[1], "Timer.Reset duration")
		w := fr.w
		ch := ti.ch
		fn := ti.fn
		if fn == nil {
			fn = func() {
				if len(ch.buf) < ch.cap {
					w.timerSend(ch, w.timeValue())
				}
			}
		}
		ti.t = w.sched.addTimer(d, fn)
		return smt.BoolC(active)
	})
	reg("time.AfterFunc", func(fr *frame, a []Value) Value {
		d := fr.concInt(a[0], "AfterFunc duration")
		tt := deref(fr.fn.Signature.Results().At(0).Type())
		var cell Value = zero(tt)
		w := fr.w
		f := a[1]
		pos := fr.callpos
		fire := func() {
			w.sched.startG("time.AfterFunc", false, func(g *G) { w.callG(g, pos, f, nil) })
		}
		t := w.sched.addTimer(d, fire)
		w.timerOf(&cell, t, nil)
		w.timers[&cell].fn = fire
		return &cell
	})
	reg("(time.Time).Format", func(fr *frame, a []Value) Value {
		// times of the engine are wall-clock UTC instants of virtual time (timeValue); a
		// concrete instant with a concrete layout is formatted the way the real method does
		if st, ok := a[0].(Struct); ok && len(st) == 3 {
			wall, ok1 := st[0].(*smt.Term)
			ext, ok2 := st[1].(*smt.Term)
			lay, ok3 := a[1].(Str)
			if ok1 && ok2 && ok3 && lay.IsConcrete() && wall.IsConst() && ext.IsConst() && wall.U < 1e9 {
				return Str{S: time.Unix(int64(ext.U)-62135596800, int64(wall.U)).UTC().Format(lay.S)}
			}
		}
		return Str{S: "0101-000000"}
	})
	reg("(time.Time).String", func(fr *frame, a []Value) Value { return Str{S: "2024-01-01 00:00:00 +0000 UTC"} })
	reg("(time.Duration).String", func(fr *frame, a []Value) Value {
		return Str{S: fmt.Sprint(timeDuration(fr.concInt(a[0], "Duration.String")))}
	})

	// ------------------------------------------------------------ internal/bytealg, strings, bytes
	idxByte := func(fr *frame, a []Value) Value {
		return indexOfTerm(bytesOf(a[0]), []*smt.Term{termOf(a[1])})
	}
	reg("internal/bytealg.IndexByte", idxByte)
	reg("internal/bytealg.IndexByteString", idxByte)
	lastIdxByte := func(fr *frame, a []Value) Value {
		return lastIndexOfTerm(bytesOf(a[0]), []*smt.Term{termOf(a[1])})
	}
	reg("internal/bytealg.LastIndexByte", lastIdxByte)
	reg("internal/bytealg.LastIndexByteString", lastIdxByte)
	reg("strings.LastIndexByte", lastIdxByte)
	reg("bytes.LastIndexByte", lastIdxByte)
	reg("strings.IndexByte", idxByte)
	reg("bytes.IndexByte", idxByte)
	idx := func(fr *frame, a []Value) Value { return indexOfTerm(bytesOf(a[0]), bytesOf(a[1])) }
	reg("internal/bytealg.Index", idx)
	reg("internal/bytealg.IndexString", idx)
	reg("strings.Index", idx)
	reg("bytes.Index", idx)
	reg("strings.LastIndex", func(fr *frame, a []Value) Value { return lastIndexOfTerm(bytesOf(a[0]), bytesOf(a[1])) })
	reg("strings.Contains", func(fr *frame, a []Value) Value {
		return smt.SLe(intC(0), indexOfTerm(bytesOf(a[0]), bytesOf(a[1])))
	})
	cnt := func(fr *frame, a []Value) Value { return countByte(bytesOf(a[0]), termOf(a[1])) }
	reg("internal/bytealg.Count", cnt)
	reg("internal/bytealg.CountString", cnt)
	reg("internal/bytealg.Equal", func(fr *frame, a []Value) Value {
		return strEq(MkStr(bytesOf(a[0])), MkStr(bytesOf(a[1])))
	})
	reg("bytes.Equal", func(fr *frame, a []Value) Value {
		return strEq(MkStr(bytesOf(a[0])), MkStr(bytesOf(a[1])))
	})
	reg("internal/bytealg.Compare", func(fr *frame, a []Value) Value {
		x, y := MkStr(bytesOf(a[0])), MkStr(bytesOf(a[1]))
		return smt.Ite(strLess(x, y, false), intC(-1), smt.Ite(strEq(x, y), intC(0), intC(1)))
	})
	reg("internal/bytealg.MakeNoZero", func(fr *frame, a []Value) Value {
		n := fr.concInt(a[0], "MakeNoZero")
		s := make([]Value, n)
		z := smt.BVC(8, 0)
		for i := range s {
			s[i] = z
		}
		return s
	})
	reg("internal/stringslite.Index", idx)
	reg("internal/stringslite.IndexByte", idxByte)
	reg("(*strings.Builder).copyCheck", func(fr *frame, a []Value) Value { return nil })
	reg("(*strings.Builder).String", func(fr *frame, a []Value) Value {
		p := a[0].(*Value)
		st := (*p).(Struct)
		buf, _ := st[structFieldIndex(recvElemType(fr), "buf")].([]Value)
		return MkStr(bytesOf(buf))
	})
	reg("strings.Clone", func(fr *frame, a []Value) Value { return a[0] })
	// ASCII-only fast models (fall back to the real code when a byte may be >= 0x80)
	reg("strings.ToLower", func(fr *frame, a []Value) Value { return fr.w.mapASCII(fr, a, 'A', 'Z', 32) })
	reg("strings.ToUpper", func(fr *frame, a []Value) Value { return fr.w.mapASCII(fr, a, 'a', 'z', -32) })
	reg("strings.EqualFold", func(fr *frame, a []Value) Value {
		x, y := strArg(a[0]), strArg(a[1])
		if !fr.w.allASCII(fr, x) || !fr.w.allASCII(fr, y) {
			return fr.w.callReal(fr, a)
		}
		if x.Len() != y.Len() {
			return smt.False
		}
		res := smt.True
		for i := 0; i < x.Len(); i++ {
			res = smt.And(res, smt.Eq(lowerTerm(x.At(i)), lowerTerm(y.At(i))))
		}
		return res
	})

	// ------------------------------------------------------------ strconv
	reg("strconv.Itoa", func(fr *frame, a []Value) Value { return Str{S: strconv.FormatInt(fr.concInt(a[0], "Itoa"), 10)} })
	reg("strconv.FormatInt", func(fr *frame, a []Value) Value {
		return Str{S: strconv.FormatInt(fr.concInt(a[0], "FormatInt"), int(fr.concInt(a[1], "base")))}
	})
	reg("strconv.FormatUint", func(fr *frame, a []Value) Value {
		return Str{S: strconv.FormatUint(uint64(fr.concInt(a[0], "FormatUint")), int(fr.concInt(a[1], "base")))}
	})
	reg("strconv.Quote", func(fr *frame, a []Value) Value { return Str{S: strconv.Quote(concStr(fr, a[0], "Quote"))} })
	reg("strconv.ParseFloat", func(fr *frame, a []Value) Value { return fr.w.parseFloat(fr, strArg(a[0])) })
	reg("strconv.FormatFloat", func(fr *frame, a []Value) Value {
		f := termOf(a[0])
		if !f.IsConst() {
			panic(engineError("FormatFloat of a symbolic float"))
		}
		return Str{S: strconv.FormatFloat(f.FVal(), byte(fr.concInt(a[1], "fmt")), int(fr.concInt(a[2], "prec")), int(fr.concInt(a[3], "bits")))}
	})

	// ------------------------------------------------------------ math
	reg("math.Float64bits", func(fr *frame, a []Value) Value {
		f := termOf(a[0])
		if f.IsConst() {
			return smt.BVC(64, f.U)
		}
		panic(engineError("Float64bits of symbolic float"))
	})
	reg("math.Float64frombits", func(fr *frame, a []Value) Value {
		f := termOf(a[0])
		if f.IsConst() {
			return smt.FPC(math.Float64frombits(f.U))
		}
		panic(engineError("Float64frombits of symbolic value"))
	})
	reg("math.IsNaN", func(fr *frame, a []Value) Value { return smt.FIsNaN(termOf(a[0])) })

	// ------------------------------------------------------------ fmt
	reg("fmt.Sprintf", func(fr *frame, a []Value) Value {
		return fr.w.sprintf(fr, concStr(fr, a[0], "format"), a[1].([]Value))
	})
	reg("fmt.Errorf", func(fr *frame, a []Value) Value {
		return mkErr(fr, fr.w.sprintf(fr, concStr(fr, a[0], "format"), a[1].([]Value)))
	})
	reg("fmt.Sprint", func(fr *frame, a []Value) Value { return fr.w.sprint(fr, a[0].([]Value), false) })
	reg("fmt.Sprintln", func(fr *frame, a []Value) Value { return fr.w.sprint(fr, a[0].([]Value), true) })
	reg("fmt.Print", func(fr *frame, a []Value) Value {
		fr.w.stdout(fr, fr.w.sprint(fr, a[0].([]Value), false))
		return Tuple{intC(0), Iface{}}
	})
	reg("fmt.Println", func(fr *frame, a []Value) Value {
		fr.w.stdout(fr, fr.w.sprint(fr, a[0].([]Value), true))
		return Tuple{intC(0), Iface{}}
	})
	reg("fmt.Printf", func(fr *frame, a []Value) Value {
		fr.w.stdout(fr, fr.w.sprintf(fr, concStr(fr, a[0], "format"), a[1].([]Value)))
		return Tuple{intC(0), Iface{}}
	})

	// Fprint*: format, then hand the bytes to the writer's own Write method
	fprint := func(fr *frame, wv Value, s Str) Value {
		e := wv.(Iface)
		if e.T == nil {
			fr.rtPanic("invalid memory address or nil pointer dereference (Fprint to a nil io.Writer)")
		}
		m := fr.w.findMethod(e.T, "Write")
		if m == nil {
			panic(engineError("fmt.Fprint: writer without Write method: " + e.T.String()))
		}
		var buf []Value
		for _, t := range s.Terms() {
			buf = append(buf, t)
		}
		return fr.w.call(fr, fr.callpos, m, []Value{e.V, buf})
	}
	reg("fmt.Fprint", func(fr *frame, a []Value) Value { return fprint(fr, a[0], fr.w.sprint(fr, a[1].([]Value), false)) })
	reg("fmt.Fprintln", func(fr *frame, a []Value) Value { return fprint(fr, a[0], fr.w.sprint(fr, a[1].([]Value), true)) })
	reg("fmt.Fprintf", func(fr *frame, a []Value) Value {
		return fprint(fr, a[0], fr.w.sprintf(fr, concStr(fr, a[1], "format"), a[2].([]Value)))
	})

	// ------------------------------------------------------------ errors
	reg("errors.Is", func(fr *frame, a []Value) Value {
		e, target := a[0].(Iface), a[1].(Iface)
		for depth := 0; depth < 10; depth++ {
			if e.T == nil {
				return smt.BoolC(target.T == nil)
			}
			if types.Identical(e.T, target.T) && types.Comparable(e.T) {
				if fr.w.path.branch(fr.eq(e.T, e.V, target.V)) {
					return smt.True
				}
			}
			um := fr.w.findMethod(e.T, "Unwrap")
			if um == nil || um.Signature.Results().Len() != 1 {
				return smt.False
			}
			if _, ok := um.Signature.Results().At(0).Type().Underlying().(*types.Interface); !ok {
				return smt.False
			}
			e = fr.w.call(fr, fr.callpos, um, []Value{e.V}).(Iface)
		}
		return smt.False
	})

	// ------------------------------------------------------------ sort
	sortSlice := func(fr *frame, a []Value) Value {
		s, _ := a[0].(Iface).V.([]Value)
		less := a[1]
		// stable insertion sort; elements are swapped in place
		for i := 1; i < len(s); i++ {
			for j := i; j > 0; j-- {
				r := fr.w.call(fr, fr.callpos, less, []Value{intC(int64(j)), intC(int64(j - 1))}).(*smt.Term)
				if !fr.w.path.branch(r) {
					break
				}
				s[j], s[j-1] = s[j-1], s[j]
			}
		}
		return nil
	}
	reg("sort.Slice", sortSlice)
	reg("sort.SliceStable", sortSlice)
	reg("sort.Strings", func(fr *frame, a []Value) Value {
		s, _ := a[0].([]Value)
		for i := 1; i < len(s); i++ {
			for j := i; j > 0; j-- {
				if !fr.w.path.branch(strLess(s[j].(Str), s[j-1].(Str), false)) {
					break
				}
				s[j], s[j-1] = s[j-1], s[j]
			}
		}
		return nil
	})
}

// byteInSet: v is one of the bytes of set (consecutive runs become range tests).
func byteInSet(v *smt.Term, set string) *smt.Term {
	var present [256]bool
	for i := 0; i < len(set); i++ {
		present[set[i]] = true
	}
	c := smt.False
	for lo := 0; lo < 256; lo++ {
		if !present[lo] {
			continue
		}
		hi := lo
		for hi+1 < 256 && present[hi+1] {
			hi++
		}
		if hi == lo {
			c = smt.Or(c, smt.Eq(v, smt.BVC(8, uint64(lo))))
		} else {
			c = smt.Or(c, smt.And(smt.ULe(smt.BVC(8, uint64(lo)), v), smt.ULe(v, smt.BVC(8, uint64(hi)))))
		}
		lo = hi
	}
	return c
}

func timeDuration(d int64) interface{} { return durationStringer(d) }

type durationStringer int64

func (d durationStringer) String() string {
	// mirror time.Duration.String without importing time into the value space
	return strconv.FormatFloat(float64(d)/1e9, 'g', -1, 64) + "s"
}

func lowerTerm(b *smt.Term) *smt.Term {
	isUp := smt.And(smt.ULe(smt.BVC(8, 'A'), b), smt.ULe(b, smt.BVC(8, 'Z')))
	return smt.Ite(isUp, smt.Add(b, smt.BVC(8, 32)), b)
}

// allASCII decides (forking at most once) whether every byte of s is < 0x80.
func (w *Worker) allASCII(fr *frame, s Str) bool {
	if s.IsConcrete() {
		for i := 0; i < len(s.S); i++ {
			if s.S[i] >= 0x80 {
				return false
			}
		}
		return true
	}
	c := smt.True
	for _, t := range s.Sym {
		c = smt.And(c, smt.ULt(t, smt.BVC(8, 0x80)))
	}
	return w.path.branch(c)
}

// callReal runs the real body of an intrinsic-shadowed function.
func (w *Worker) callReal(fr *frame, args []Value) Value {
	fn := fr.fn
	if fn.Blocks == nil && fn.Pkg != nil {
		fn.Pkg.Build()
	}
	if fn.Blocks == nil {
		panic(engineError("no code for " + fn.String()))
	}
	w.ex.noteFunc(fn)
	fr.env = make(map[ssa.Value]Value, 16)
	fr.block = fn.Blocks[0]
	fr.locals = make([]Value, len(fn.Locals))
	for i, l := range fn.Locals {
		fr.locals[i] = zero(deref(l.Type()))
		fr.env[l] = &fr.locals[i]
	}
	for i, p := range fn.Params {
		fr.env[p] = args[i]
	}
	for fr.block != nil {
		fr.runFrame()
	}
	return fr.result
}

func (w *Worker) mapASCII(fr *frame, a []Value, lo, hi byte, delta int) Value {
	s := strArg(a[0])
	if s.IsConcrete() {
		if delta > 0 {
			return Str{S: strings.ToLower(s.S)}
		}
		return Str{S: strings.ToUpper(s.S)}
	}
	if !w.allASCII(fr, s) {
		return w.callReal(fr, a)
	}
	ts := make([]*smt.Term, s.Len())
	for i := range ts {
		b := s.At(i)
		in := smt.And(smt.ULe(smt.BVC(8, uint64(lo)), b), smt.ULe(b, smt.BVC(8, uint64(hi))))
		ts[i] = smt.Ite(in, smt.Add(b, smt.BVC(8, uint64(uint8(delta)))), b)
	}
	return MkStr(ts)
}

func (w *Worker) assume(fr *frame, c *smt.Term) {
	p := w.path
	if b, ok := c.ConstBool(); ok {
		if !b {
			p.abort(OutInfeasible, "assumption false")
		}
		return
	}
	if p.pos < len(p.prefix) {
		// replaying: the assumption was feasible before
		p.assertPC(c)
		return
	}
	p.installPendingModel()
	if p.cmodel != nil && evaluable(c) && smt.Eval(c, p.cmodel) != 0 {
		p.assertPC(c) // the current model already satisfies it
		return
	}
	r, m := p.checkSide(c)
	if r == smt.Unsat {
		p.abort(OutInfeasible, "assumption infeasible")
	}
	if m != nil {
		defer func() { p.cmodel = m }()
	}
	if r == smt.Unknown {
		p.unknowns++
		w.ex.noteInconclusive("solver unknown on an assumption")
	}
	p.assertPC(c)
}

func (p *Path) ufConst(name string) *smt.Term {
	n := sanitize(name)
	if t, ok := p.symByName[n]; ok {
		return t
	}
	v := smt.Var(n, smt.Bool)
	p.symbols = append(p.symbols, v)
	p.symByName[n] = v
	p.w.solver.Declare(v)
	return v
}

// ---------------------------------------------------------------- sync helpers

func (s *Sched) mutex(p *Value) *muState {
	m := s.mu[p]
	if m == nil {
		m = &muState{}
		s.mu[p] = m
	}
	return m
}

func (s *Sched) waitGroup(p *Value) *int64 {
	c := s.wg[p]
	if c == nil {
		c = new(int64)
		s.wg[p] = c
	}
	return c
}

func (w *Worker) muLock(fr *frame, p *Value) {
	s := w.sched
	s.point(fr.g)
	m := s.mutex(p)
	s.waitUntil(fr.g, "Mutex.Lock", func() bool { return !m.locked })
	m.locked = true
	fr.g.xlocks++
}

func (w *Worker) muUnlock(fr *frame, p *Value) {
	m := w.sched.mutex(p)
	if !m.locked {
		fr.rtPanic("sync: unlock of unlocked mutex")
	}
	m.locked = false
	if fr.g.xlocks > 0 {
		fr.g.xlocks--
	}
}

// ---------------------------------------------------------------- time helpers

type timerInfo struct {
	t       *timer
	ch      *Chan
	fn      func()
	stopped bool
}

const baseUnixSec = 1704067200 // 2024-01-01T00:00:00Z

func (w *Worker) timeValue() Value {
	now := w.sched.now
	sec := int64(baseUnixSec) + now/1e9 + 62135596800
	nsec := now % 1e9
	return Struct{smt.BVC(64, uint64(nsec)), smt.BVC(64, uint64(sec)), (*Value)(nil)}
}

// timerSend delivers a timer tick into ch (buffered 1) or to a waiting receiver.
func (w *Worker) timerSend(ch *Chan, v Value) {
	s := w.sched
	if r, i := s.waiting(ch, false); r != nil {
		s.complete(r, i, v, true)
		return
	}
	if len(ch.buf) < ch.cap {
		ch.buf = append(ch.buf, v)
	}
}

func (w *Worker) timerOf(cell *Value, t *timer, ch *Chan) {
	if w.timers == nil {
		w.timers = map[*Value]*timerInfo{}
	}
	w.timers[cell] = &timerInfo{t: t, ch: ch}
}

func (w *Worker) startTicker(ch *Chan, d int64, cell *Value) {
	ti := &timerInfo{ch: ch}
	if cell != nil {
		if w.timers == nil {
			w.timers = map[*Value]*timerInfo{}
		}
		w.timers[cell] = ti
	}
	var tick func()
	tick = func() {
		if ti.stopped {
			return
		}
		w.timerSend(ch, w.timeValue())
		ti.t = w.sched.addTimer(d, tick)
	}
	ti.t = w.sched.addTimer(d, tick)
}

func (w *Worker) exited(fr *frame, code int) {
	w.path.Notes = append(w.path.Notes, fmt.Sprintf("os.Exit(%d)", code))
	if h := w.ex.OnExit; h != nil {
		h(w, code)
	}
	panic(abortPath{"os.Exit"})
}
