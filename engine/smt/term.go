// Package smt: terms (Bool, bit-vectors up to 64 bits, float64) with constant
// folding, SMT-LIB2 printing and a concrete evaluator.
package smt

import (
	"fmt"
	"math"
	"math/bits"
	"strings"
	"sync/atomic"
)

type SortKind uint8

const (
	SBool SortKind = iota
	SBV
	SFP // IEEE double
)

type Sort struct {
	K SortKind
	W int // BV width
}

var Bool = Sort{K: SBool}
var FP64 = Sort{K: SFP}

func BV(w int) Sort { return Sort{K: SBV, W: w} }

func (s Sort) String() string {
	switch s.K {
	case SBool:
		return "Bool"
	case SBV:
		return fmt.Sprintf("(_ BitVec %d)", s.W)
	default:
		return "(_ FloatingPoint 11 53)"
	}
}

type Op uint8

const (
	OConst Op = iota
	OVar
	ONot
	OAnd
	OOr
	OXorB
	OIte
	OEq
	OAdd
	OSub
	OMul
	OUDiv
	OURem
	OSDiv
	OSRem
	OBAnd
	OBOr
	OBXor
	OBNot
	ONeg
	OShl
	OLShr
	OAShr
	OULt
	OULe
	OSLt
	OSLe
	OExtract // P1=hi P2=lo
	OZExt    // P1=extra bits
	OSExt
	OConcat
	OFAdd
	OFSub
	OFMul
	OFDiv
	OFNeg
	OFLt
	OFLe
	OFEq
	OFIsNaN
	OSIToFP
	OUIToFP
	OFPToSI // P1 = width
	OFPToUI
	OUF // uninterpreted function application, Name = function
)

var opNames = map[Op]string{
	ONot: "not", OAnd: "and", OOr: "or", OXorB: "xor", OIte: "ite", OEq: "=",
	OAdd: "bvadd", OSub: "bvsub", OMul: "bvmul", OUDiv: "bvudiv", OURem: "bvurem",
	OSDiv: "bvsdiv", OSRem: "bvsrem", OBAnd: "bvand", OBOr: "bvor", OBXor: "bvxor",
	OBNot: "bvnot", ONeg: "bvneg", OShl: "bvshl", OLShr: "bvlshr", OAShr: "bvashr",
	OULt: "bvult", OULe: "bvule", OSLt: "bvslt", OSLe: "bvsle", OConcat: "concat",
	OFAdd: "fp.add RNE", OFSub: "fp.sub RNE", OFMul: "fp.mul RNE", OFDiv: "fp.div RNE",
	OFNeg: "fp.neg", OFLt: "fp.lt", OFLe: "fp.leq", OFEq: "fp.eq", OFIsNaN: "fp.isNaN",
}

type Term struct {
	Op     Op
	Sort   Sort
	Args   []*Term
	U      uint64 // constant payload (bool 0/1, bv value masked, fp bits)
	Name   string
	P1, P2 int
	ID     int64
	Size   int32 // tree size (saturating); small terms are printed inline
}

const inlineLimit = 24

var idCtr int64

func newTerm(op Op, s Sort, args ...*Term) *Term {
	sz := int32(1)
	for _, a := range args {
		if a.Size > 1 {
			sz += a.Size
		} else {
			sz++
		}
		if sz > 1<<20 {
			sz = 1 << 20
		}
	}
	return &Term{Op: op, Sort: s, Args: args, ID: atomic.AddInt64(&idCtr, 1), Size: sz}
}

// Named reports whether the term gets its own definition in the solver
// (large terms are named and shared; small ones are printed inline).
func (t *Term) Named() bool { return t.Op != OConst && t.Op != OVar && t.Size >= inlineLimit }

func mask(w int) uint64 {
	if w >= 64 {
		return ^uint64(0)
	}
	return (uint64(1) << uint(w)) - 1
}

func (t *Term) IsConst() bool { return t.Op == OConst }

var True = &Term{Op: OConst, Sort: Bool, U: 1}
var False = &Term{Op: OConst, Sort: Bool, U: 0}

func BoolC(b bool) *Term {
	if b {
		return True
	}
	return False
}

func BVC(w int, v uint64) *Term { return &Term{Op: OConst, Sort: BV(w), U: v & mask(w)} }
func FPC(f float64) *Term      { return &Term{Op: OConst, Sort: FP64, U: math.Float64bits(f)} }

func Var(name string, s Sort) *Term {
	t := newTerm(OVar, s)
	t.Name = name
	return t
}

// ConstBool reports (value, true) if t is a Bool constant.
func (t *Term) ConstBool() (bool, bool) {
	if t.Op == OConst {
		return t.U != 0, true
	}
	return false, false
}

// signed value of a BV constant
func (t *Term) SVal() int64 { return sext(t.U, t.Sort.W) }
func (t *Term) FVal() float64 { return math.Float64frombits(t.U) }

func sext(v uint64, w int) int64 {
	if w >= 64 {
		return int64(v)
	}
	if v&(1<<uint(w-1)) != 0 {
		return int64(v | ^mask(w))
	}
	return int64(v)
}

// ---------------------------------------------------------------- booleans

func Not(a *Term) *Term {
	if a.Op == OConst {
		return BoolC(a.U == 0)
	}
	if a.Op == ONot {
		return a.Args[0]
	}
	return newTerm(ONot, Bool, a)
}

func And(a, b *Term) *Term {
	if a.Op == OConst {
		if a.U == 0 {
			return False
		}
		return b
	}
	if b.Op == OConst {
		if b.U == 0 {
			return False
		}
		return a
	}
	if a == b {
		return a
	}
	return newTerm(OAnd, Bool, a, b)
}

func Or(a, b *Term) *Term {
	if a.Op == OConst {
		if a.U != 0 {
			return True
		}
		return b
	}
	if b.Op == OConst {
		if b.U != 0 {
			return True
		}
		return a
	}
	if a == b {
		return a
	}
	return newTerm(OOr, Bool, a, b)
}

func AndN(ts ...*Term) *Term {
	r := True
	for _, t := range ts {
		r = And(r, t)
	}
	return r
}

func OrN(ts ...*Term) *Term {
	r := False
	for _, t := range ts {
		r = Or(r, t)
	}
	return r
}

func Implies(a, b *Term) *Term { return Or(Not(a), b) }

func Ite(c, a, b *Term) *Term {
	if c.Op == OConst {
		if c.U != 0 {
			return a
		}
		return b
	}
	if a == b {
		return a
	}
	if a.Op == OConst && b.Op == OConst && a.Sort == b.Sort && a.U == b.U {
		return a
	}
	if a.Sort.K == SBool {
		if a.Op == OConst && b.Op == OConst {
			if a.U != 0 {
				return c
			}
			return Not(c)
		}
	}
	return newTerm(OIte, a.Sort, c, a, b)
}

func Eq(a, b *Term) *Term {
	if a.Sort != b.Sort {
		panic(fmt.Sprintf("smt.Eq: sort mismatch %v vs %v", a.Sort, b.Sort))
	}
	if a == b && a.Sort.K != SFP {
		return True
	}
	if a.Op == OConst && b.Op == OConst {
		if a.Sort.K == SFP {
			// structural equality on bit patterns is what "=" means; callers
			// wanting IEEE equality use FEq.
			return BoolC(a.U == b.U)
		}
		return BoolC(a.U == b.U)
	}
	if a.Sort.K == SBool {
		if a.Op == OConst {
			if a.U != 0 {
				return b
			}
			return Not(b)
		}
		if b.Op == OConst {
			if b.U != 0 {
				return a
			}
			return Not(a)
		}
	}
	// zext(x) == const with const out of range -> false
	if a.Op == OZExt && b.Op == OConst {
		iw := a.Args[0].Sort.W
		if b.U > mask(iw) {
			return False
		}
		return Eq(a.Args[0], BVC(iw, b.U))
	}
	if b.Op == OZExt && a.Op == OConst {
		return Eq(b, a)
	}
	return newTerm(OEq, Bool, a, b)
}

func Ne(a, b *Term) *Term { return Not(Eq(a, b)) }

// ---------------------------------------------------------------- bit-vectors

func bin(op Op, a, b *Term) *Term {
	if a.Sort != b.Sort {
		panic(fmt.Sprintf("smt: sort mismatch in %s: %v vs %v", opNames[op], a.Sort, b.Sort))
	}
	w := a.Sort.W
	if a.Op == OConst && b.Op == OConst {
		x, y := a.U, b.U
		var r uint64
		switch op {
		case OAdd:
			r = x + y
		case OSub:
			r = x - y
		case OMul:
			r = x * y
		case OUDiv:
			if y == 0 {
				r = mask(w)
			} else {
				r = x / y
			}
		case OURem:
			if y == 0 {
				r = x
			} else {
				r = x % y
			}
		case OSDiv:
			sx, sy := sext(x, w), sext(y, w)
			if sy == 0 {
				if sx < 0 {
					r = 1
				} else {
					r = mask(w)
				}
			} else if sy == -1 {
				r = uint64(-sx)
			} else {
				r = uint64(sx / sy)
			}
		case OSRem:
			sx, sy := sext(x, w), sext(y, w)
			if sy == 0 {
				r = x
			} else if sy == -1 {
				r = 0
			} else {
				r = uint64(sx % sy)
			}
		case OBAnd:
			r = x & y
		case OBOr:
			r = x | y
		case OBXor:
			r = x ^ y
		case OShl:
			if y >= uint64(w) {
				r = 0
			} else {
				r = x << y
			}
		case OLShr:
			if y >= uint64(w) {
				r = 0
			} else {
				r = x >> y
			}
		case OAShr:
			sx := sext(x, w)
			if y >= uint64(w) {
				if sx < 0 {
					r = mask(w)
				} else {
					r = 0
				}
			} else {
				r = uint64(sx >> y)
			}
		}
		return BVC(w, r)
	}
	// light identities
	switch op {
	case OAdd, OBOr, OBXor:
		if a.Op == OConst && a.U == 0 {
			return b
		}
		if b.Op == OConst && b.U == 0 {
			return a
		}
	case OSub, OShl, OLShr, OAShr:
		if b.Op == OConst && b.U == 0 {
			return a
		}
	case OMul:
		if a.Op == OConst && a.U == 1 {
			return b
		}
		if b.Op == OConst && b.U == 1 {
			return a
		}
		if (a.Op == OConst && a.U == 0) || (b.Op == OConst && b.U == 0) {
			return BVC(w, 0)
		}
	case OBAnd:
		if a.Op == OConst && a.U == mask(w) {
			return b
		}
		if b.Op == OConst && b.U == mask(w) {
			return a
		}
		if (a.Op == OConst && a.U == 0) || (b.Op == OConst && b.U == 0) {
			return BVC(w, 0)
		}
	}
	return newTerm(op, a.Sort, a, b)
}

func Add(a, b *Term) *Term  { return bin(OAdd, a, b) }
func Sub(a, b *Term) *Term  { return bin(OSub, a, b) }
func Mul(a, b *Term) *Term  { return bin(OMul, a, b) }
func UDiv(a, b *Term) *Term { return bin(OUDiv, a, b) }
func URem(a, b *Term) *Term { return bin(OURem, a, b) }
func SDiv(a, b *Term) *Term { return bin(OSDiv, a, b) }
func SRem(a, b *Term) *Term { return bin(OSRem, a, b) }
func BAnd(a, b *Term) *Term { return bin(OBAnd, a, b) }
func BOr(a, b *Term) *Term  { return bin(OBOr, a, b) }
func BXor(a, b *Term) *Term { return bin(OBXor, a, b) }
func Shl(a, b *Term) *Term  { return bin(OShl, a, b) }
func LShr(a, b *Term) *Term { return bin(OLShr, a, b) }
func AShr(a, b *Term) *Term { return bin(OAShr, a, b) }

func BNot(a *Term) *Term {
	if a.Op == OConst {
		return BVC(a.Sort.W, ^a.U)
	}
	return newTerm(OBNot, a.Sort, a)
}
func Neg(a *Term) *Term {
	if a.Op == OConst {
		return BVC(a.Sort.W, -a.U)
	}
	return newTerm(ONeg, a.Sort, a)
}

func cmp(op Op, a, b *Term) *Term {
	if a.Sort != b.Sort {
		panic(fmt.Sprintf("smt: sort mismatch in %s: %v vs %v", opNames[op], a.Sort, b.Sort))
	}
	w := a.Sort.W
	if a.Op == OConst && b.Op == OConst {
		switch op {
		case OULt:
			return BoolC(a.U < b.U)
		case OULe:
			return BoolC(a.U <= b.U)
		case OSLt:
			return BoolC(sext(a.U, w) < sext(b.U, w))
		case OSLe:
			return BoolC(sext(a.U, w) <= sext(b.U, w))
		}
	}
	if a == b {
		return BoolC(op == OULe || op == OSLe)
	}
	// zext(x) <u const simplifications (very common: byte compared with a constant)
	if a.Op == OZExt && b.Op == OConst {
		iw := a.Args[0].Sort.W
		inner := a.Args[0]
		switch op {
		case OULt, OSLt:
			if op == OSLt && sext(b.U, w) < 0 {
				return False
			}
			if b.U > mask(iw) {
				return True
			}
			return cmp(OULt, inner, BVC(iw, b.U))
		case OULe, OSLe:
			if op == OSLe && sext(b.U, w) < 0 {
				return False
			}
			if b.U >= mask(iw) {
				return True
			}
			return cmp(OULe, inner, BVC(iw, b.U))
		}
	}
	if b.Op == OZExt && a.Op == OConst {
		iw := b.Args[0].Sort.W
		inner := b.Args[0]
		switch op {
		case OULt, OSLt:
			if op == OSLt && sext(a.U, w) < 0 {
				return True
			}
			if a.U >= mask(iw) {
				return False
			}
			return cmp(OULt, BVC(iw, a.U), inner)
		case OULe, OSLe:
			if op == OSLe && sext(a.U, w) < 0 {
				return True
			}
			if a.U > mask(iw) {
				return False
			}
			return cmp(OULe, BVC(iw, a.U), inner)
		}
	}
	return newTerm(op, Bool, a, b)
}

func ULt(a, b *Term) *Term { return cmp(OULt, a, b) }
func ULe(a, b *Term) *Term { return cmp(OULe, a, b) }
func SLt(a, b *Term) *Term { return cmp(OSLt, a, b) }
func SLe(a, b *Term) *Term { return cmp(OSLe, a, b) }

func Extract(a *Term, hi, lo int) *Term {
	w := hi - lo + 1
	if lo == 0 && w == a.Sort.W {
		return a
	}
	if a.Op == OConst {
		return BVC(w, a.U>>uint(lo))
	}
	if (a.Op == OZExt || a.Op == OSExt) && lo == 0 {
		iw := a.Args[0].Sort.W
		if w == iw {
			return a.Args[0]
		}
		if w < iw {
			return Extract(a.Args[0], hi, 0)
		}
	}
	t := newTerm(OExtract, BV(w), a)
	t.P1, t.P2 = hi, lo
	return t
}

func ZExt(a *Term, to int) *Term {
	if to == a.Sort.W {
		return a
	}
	if to < a.Sort.W {
		return Extract(a, to-1, 0)
	}
	if a.Op == OConst {
		return BVC(to, a.U)
	}
	if a.Op == OZExt {
		return ZExt(a.Args[0], to)
	}
	t := newTerm(OZExt, BV(to), a)
	t.P1 = to - a.Sort.W
	return t
}

func SExt(a *Term, to int) *Term {
	if to == a.Sort.W {
		return a
	}
	if to < a.Sort.W {
		return Extract(a, to-1, 0)
	}
	if a.Op == OConst {
		return BVC(to, uint64(sext(a.U, a.Sort.W)))
	}
	if a.Op == OZExt { // sign bit is 0
		return ZExt(a.Args[0], to)
	}
	t := newTerm(OSExt, BV(to), a)
	t.P1 = to - a.Sort.W
	return t
}

func Concat(hi, lo *Term) *Term {
	w := hi.Sort.W + lo.Sort.W
	if w > 64 {
		panic("smt.Concat: wider than 64")
	}
	if hi.Op == OConst && lo.Op == OConst {
		return BVC(w, hi.U<<uint(lo.Sort.W)|lo.U)
	}
	return newTerm(OConcat, BV(w), hi, lo)
}

// ---------------------------------------------------------------- floats

func fbin(op Op, a, b *Term) *Term {
	if a.Op == OConst && b.Op == OConst {
		x, y := a.FVal(), b.FVal()
		switch op {
		case OFAdd:
			return FPC(x + y)
		case OFSub:
			return FPC(x - y)
		case OFMul:
			return FPC(x * y)
		case OFDiv:
			return FPC(x / y)
		}
	}
	return newTerm(op, FP64, a, b)
}
func FAdd(a, b *Term) *Term { return fbin(OFAdd, a, b) }
func FSub(a, b *Term) *Term { return fbin(OFSub, a, b) }
func FMul(a, b *Term) *Term { return fbin(OFMul, a, b) }
func FDiv(a, b *Term) *Term { return fbin(OFDiv, a, b) }
func FNeg(a *Term) *Term {
	if a.Op == OConst {
		return FPC(-a.FVal())
	}
	return newTerm(OFNeg, FP64, a)
}
func fcmp(op Op, a, b *Term) *Term {
	if a.Op == OConst && b.Op == OConst {
		x, y := a.FVal(), b.FVal()
		switch op {
		case OFLt:
			return BoolC(x < y)
		case OFLe:
			return BoolC(x <= y)
		case OFEq:
			return BoolC(x == y)
		}
	}
	return newTerm(op, Bool, a, b)
}
func FLt(a, b *Term) *Term { return fcmp(OFLt, a, b) }
func FLe(a, b *Term) *Term { return fcmp(OFLe, a, b) }
func FEq(a, b *Term) *Term { return fcmp(OFEq, a, b) }
func FIsNaN(a *Term) *Term {
	if a.Op == OConst {
		return BoolC(math.IsNaN(a.FVal()))
	}
	return newTerm(OFIsNaN, Bool, a)
}
func SIToFP(a *Term) *Term {
	if a.Op == OConst {
		return FPC(float64(a.SVal()))
	}
	return newTerm(OSIToFP, FP64, a)
}
func UIToFP(a *Term) *Term {
	if a.Op == OConst {
		return FPC(float64(a.U))
	}
	return newTerm(OUIToFP, FP64, a)
}
func FPToSI(a *Term, w int) *Term {
	if a.Op == OConst {
		f := a.FVal()
		if !math.IsNaN(f) && !math.IsInf(f, 0) && math.Abs(f) < 9e18 {
			return BVC(w, uint64(int64(f)))
		}
	}
	t := newTerm(OFPToSI, BV(w), a)
	t.P1 = w
	return t
}
func FPToUI(a *Term, w int) *Term {
	if a.Op == OConst {
		f := a.FVal()
		if !math.IsNaN(f) && f >= 0 && f < 1.8e19 {
			return BVC(w, uint64(f))
		}
	}
	t := newTerm(OFPToUI, BV(w), a)
	t.P1 = w
	return t
}

// UF builds an application of an uninterpreted function.
func UF(name string, res Sort, args ...*Term) *Term {
	t := newTerm(OUF, res, args...)
	t.Name = name
	return t
}

// ---------------------------------------------------------------- printing

func constLit(t *Term) string {
	switch t.Sort.K {
	case SBool:
		if t.U != 0 {
			return "true"
		}
		return "false"
	case SBV:
		if t.Sort.W%4 == 0 {
			return fmt.Sprintf("#x%0*x", t.Sort.W/4, t.U)
		}
		return fmt.Sprintf("#b%0*b", t.Sort.W, t.U)
	default:
		b := t.U
		return fmt.Sprintf("(fp #b%b #b%011b #x%013x)", b>>63, (b>>52)&0x7ff, b&((1<<52)-1))
	}
}

// Ref returns how a term is referenced inside other terms: literal, variable
// name or the name of its definition.
func Ref(t *Term) string {
	switch t.Op {
	case OConst:
		return constLit(t)
	case OVar:
		return t.Name
	}
	if t.Named() {
		return fmt.Sprintf("t!%d", t.ID)
	}
	return Body(t)
}

// Body prints the one-level definition of a non-leaf term, its arguments by reference.
func Body(t *Term) string {
	var sb strings.Builder
	sb.WriteByte('(')
	switch t.Op {
	case OExtract:
		fmt.Fprintf(&sb, "(_ extract %d %d)", t.P1, t.P2)
	case OZExt:
		fmt.Fprintf(&sb, "(_ zero_extend %d)", t.P1)
	case OSExt:
		fmt.Fprintf(&sb, "(_ sign_extend %d)", t.P1)
	case OSIToFP:
		sb.WriteString("(_ to_fp 11 53) RNE")
	case OUIToFP:
		sb.WriteString("(_ to_fp_unsigned 11 53) RNE")
	case OFPToSI:
		fmt.Fprintf(&sb, "(_ fp.to_sbv %d) RTZ", t.P1)
	case OFPToUI:
		fmt.Fprintf(&sb, "(_ fp.to_ubv %d) RTZ", t.P1)
	case OUF:
		sb.WriteString(t.Name)
	default:
		sb.WriteString(opNames[t.Op])
	}
	for _, a := range t.Args {
		sb.WriteByte(' ')
		sb.WriteString(Ref(a))
	}
	sb.WriteByte(')')
	return sb.String()
}

// String prints the full tree (debugging only; may be large).
func (t *Term) String() string {
	switch t.Op {
	case OConst, OVar:
		return Ref(t)
	}
	var sb strings.Builder
	sb.WriteByte('(')
	switch t.Op {
	case OExtract:
		fmt.Fprintf(&sb, "(_ extract %d %d)", t.P1, t.P2)
	case OZExt:
		fmt.Fprintf(&sb, "(_ zero_extend %d)", t.P1)
	case OSExt:
		fmt.Fprintf(&sb, "(_ sign_extend %d)", t.P1)
	case OUF:
		sb.WriteString(t.Name)
	default:
		sb.WriteString(opNames[t.Op])
	}
	for _, a := range t.Args {
		sb.WriteByte(' ')
		sb.WriteString(a.String())
	}
	sb.WriteByte(')')
	return sb.String()
}

// ---------------------------------------------------------------- evaluation

// Model maps variable names to values (bool 0/1, bv value, fp bits).
type Model map[string]uint64

// Eval evaluates t under m; unknown variables evaluate to 0. UF applications
// are looked up as "name(arg,arg,...)" keys and default to 0.
func Eval(t *Term, m Model) uint64 {
	memo := map[*Term]uint64{}
	return eval(t, m, memo)
}

func eval(t *Term, m Model, memo map[*Term]uint64) uint64 {
	switch t.Op {
	case OConst:
		return t.U
	case OVar:
		return m[t.Name]
	}
	if v, ok := memo[t]; ok {
		return v
	}
	a := make([]uint64, len(t.Args))
	for i, x := range t.Args {
		a[i] = eval(x, m, memo)
	}
	var r uint64
	b2u := func(b bool) uint64 {
		if b {
			return 1
		}
		return 0
	}
	w := t.Sort.W
	aw := 0
	if len(t.Args) > 0 {
		aw = t.Args[0].Sort.W
	}
	cst := func(i int) *Term { return &Term{Op: OConst, Sort: t.Args[i].Sort, U: a[i]} }
	switch t.Op {
	case ONot:
		r = a[0] ^ 1
	case OAnd:
		r = a[0] & a[1]
	case OOr:
		r = a[0] | a[1]
	case OXorB:
		r = a[0] ^ a[1]
	case OIte:
		if a[0] != 0 {
			r = a[1]
		} else {
			r = a[2]
		}
	case OEq:
		r = b2u(a[0] == a[1])
	case OAdd, OSub, OMul, OUDiv, OURem, OSDiv, OSRem, OBAnd, OBOr, OBXor, OShl, OLShr, OAShr:
		r = bin(t.Op, cst(0), cst(1)).U
	case OBNot:
		r = ^a[0] & mask(w)
	case ONeg:
		r = -a[0] & mask(w)
	case OULt:
		r = b2u(a[0] < a[1])
	case OULe:
		r = b2u(a[0] <= a[1])
	case OSLt:
		r = b2u(sext(a[0], aw) < sext(a[1], aw))
	case OSLe:
		r = b2u(sext(a[0], aw) <= sext(a[1], aw))
	case OExtract:
		r = (a[0] >> uint(t.P2)) & mask(w)
	case OZExt:
		r = a[0]
	case OSExt:
		r = uint64(sext(a[0], aw)) & mask(w)
	case OConcat:
		r = a[0]<<uint(t.Args[1].Sort.W) | a[1]
	case OFAdd:
		r = math.Float64bits(math.Float64frombits(a[0]) + math.Float64frombits(a[1]))
	case OFSub:
		r = math.Float64bits(math.Float64frombits(a[0]) - math.Float64frombits(a[1]))
	case OFMul:
		r = math.Float64bits(math.Float64frombits(a[0]) * math.Float64frombits(a[1]))
	case OFDiv:
		r = math.Float64bits(math.Float64frombits(a[0]) / math.Float64frombits(a[1]))
	case OFNeg:
		r = math.Float64bits(-math.Float64frombits(a[0]))
	case OFLt:
		r = b2u(math.Float64frombits(a[0]) < math.Float64frombits(a[1]))
	case OFLe:
		r = b2u(math.Float64frombits(a[0]) <= math.Float64frombits(a[1]))
	case OFEq:
		r = b2u(math.Float64frombits(a[0]) == math.Float64frombits(a[1]))
	case OFIsNaN:
		r = b2u(math.IsNaN(math.Float64frombits(a[0])))
	case OSIToFP:
		r = math.Float64bits(float64(sext(a[0], aw)))
	case OUIToFP:
		r = math.Float64bits(float64(a[0]))
	case OFPToSI:
		r = uint64(int64(math.Float64frombits(a[0]))) & mask(w)
	case OFPToUI:
		r = uint64(math.Float64frombits(a[0])) & mask(w)
	case OUF:
		key := t.Name + "("
		for i, x := range a {
			if i > 0 {
				key += ","
			}
			key += fmt.Sprint(x)
		}
		key += ")"
		r = m[key]
	}
	memo[t] = r
	return r
}

var _ = bits.Len
