package smt

import (
	"bufio"
	"fmt"
	"io"
	"os"
	"os/exec"
	"strconv"
	"strings"
	"time"
)

type Result int

const (
	Unsat Result = iota
	Sat
	Unknown
)

func (r Result) String() string { return [...]string{"unsat", "sat", "unknown"}[r] }

// Solver is one long-lived solver process spoken to over a pipe (SMT-LIB2).
type Solver struct {
	NRetried int // queries asked a second time with a longer limit
	Cmd      []string
	cmd      *exec.Cmd
	in       io.WriteCloser
	out      *bufio.Reader
	scopes   []scope // definitions per push level
	Log      io.Writer
	TimeoutMs int

	// statistics
	NSat, NUnsat, NUnknown int
	Time                   time.Duration
	Errors                 []string
}

type scope struct {
	defined map[int64]bool
	declUF  map[string]bool
}

func NewSolver(cmdline []string, timeoutMs int) (*Solver, error) {
	s := &Solver{Cmd: cmdline, TimeoutMs: timeoutMs}
	if err := s.start(); err != nil {
		return nil, err
	}
	return s, nil
}

func (s *Solver) start() error {
	s.cmd = exec.Command(s.Cmd[0], s.Cmd[1:]...)
	in, err := s.cmd.StdinPipe()
	if err != nil {
		return err
	}
	out, err := s.cmd.StdoutPipe()
	if err != nil {
		return err
	}
	s.cmd.Stderr = os.Stderr
	if err := s.cmd.Start(); err != nil {
		return err
	}
	s.in = in
	s.out = bufio.NewReaderSize(out, 1<<16)
	s.scopes = []scope{{defined: map[int64]bool{}, declUF: map[string]bool{}}}
	s.send("(set-option :print-success false)")
	if strings.Contains(s.Cmd[0], "z3") {
		s.send(fmt.Sprintf("(set-option :timeout %d)", s.TimeoutMs))
	} else {
		s.send("(set-logic ALL)")
	}
	s.send("(set-option :produce-models true)")
	return nil
}

func (s *Solver) Close() {
	if s.cmd != nil {
		s.in.Close()
		s.cmd.Process.Kill()
		s.cmd.Wait()
		s.cmd = nil
	}
}

// Restart kills and restarts the solver process (all scopes lost).
func (s *Solver) Restart() error {
	s.Close()
	return s.start()
}

func (s *Solver) send(line string) {
	if s.Log != nil {
		fmt.Fprintln(s.Log, line)
	}
	io.WriteString(s.in, line)
	io.WriteString(s.in, "\n")
}

func (s *Solver) Push() {
	s.send("(push 1)")
	s.scopes = append(s.scopes, scope{defined: map[int64]bool{}, declUF: map[string]bool{}})
}

func (s *Solver) Pop() {
	s.send("(pop 1)")
	s.scopes = s.scopes[:len(s.scopes)-1]
}

func (s *Solver) Depth() int { return len(s.scopes) - 1 }

func (s *Solver) isDefined(id int64) bool {
	for i := len(s.scopes) - 1; i >= 0; i-- {
		if s.scopes[i].defined[id] {
			return true
		}
	}
	return false
}

func (s *Solver) ufDeclared(n string) bool {
	for i := len(s.scopes) - 1; i >= 0; i-- {
		if s.scopes[i].declUF[n] {
			return true
		}
	}
	return false
}

// Declare declares a variable in the current scope.
func (s *Solver) Declare(v *Term) {
	s.send(fmt.Sprintf("(declare-const %s %s)", v.Name, v.Sort))
	s.scopes[len(s.scopes)-1].defined[v.ID] = true
}

// define declares the variables and emits definitions for the named (large)
// nodes under t that the solver does not know yet.
func (s *Solver) define(t *Term) {
	if t.Op == OConst {
		return
	}
	if t.Op == OVar {
		if !s.isDefined(t.ID) {
			s.Declare(t)
		}
		return
	}
	if t.Named() && s.isDefined(t.ID) {
		return
	}
	type fr struct {
		t *Term
		i int
	}
	visited := map[*Term]bool{}
	stack := []fr{{t, 0}}
	for len(stack) > 0 {
		f := &stack[len(stack)-1]
		if f.i < len(f.t.Args) {
			a := f.t.Args[f.i]
			f.i++
			if a.Op == OConst || visited[a] {
				continue
			}
			if a.Op == OVar {
				if !s.isDefined(a.ID) {
					s.Declare(a)
				}
				continue
			}
			if a.Named() && s.isDefined(a.ID) {
				continue
			}
			visited[a] = true
			stack = append(stack, fr{a, 0})
			continue
		}
		n := f.t
		stack = stack[:len(stack)-1]
		if n.Op == OUF && !s.ufDeclared(n.Name) {
			var as []string
			for _, a := range n.Args {
				as = append(as, a.Sort.String())
			}
			s.send(fmt.Sprintf("(declare-fun %s (%s) %s)", n.Name, strings.Join(as, " "), n.Sort))
			s.scopes[len(s.scopes)-1].declUF[n.Name] = true
		}
		if !n.Named() || s.isDefined(n.ID) {
			continue
		}
		s.send(fmt.Sprintf("(define-fun t!%d () %s %s)", n.ID, n.Sort, Body(n)))
		s.scopes[len(s.scopes)-1].defined[n.ID] = true
	}
}

func (s *Solver) Assert(t *Term) {
	s.define(t)
	s.send(fmt.Sprintf("(assert %s)", Ref(t)))
}

func (s *Solver) readLine() (string, error) {
	for {
		l, err := s.out.ReadString('\n')
		if err != nil {
			return "", err
		}
		l = strings.TrimSpace(l)
		if l == "" {
			continue
		}
		return l, nil
	}
}

// Check runs (check-sat).
func (s *Solver) Check() Result {
	r, hadErr := s.check1()
	if r == Unknown && !hadErr && s.TimeoutMs > 0 {
		// a query that ran into the per-query time limit (a loaded machine is enough) is
		// asked once more with six times the limit before the path is given up
		s.send(fmt.Sprintf("(set-option :timeout %d)", 6*s.TimeoutMs))
		r, hadErr = s.check1()
		s.send(fmt.Sprintf("(set-option :timeout %d)", s.TimeoutMs))
		s.NRetried++
	}
	if hadErr {
		r = Unknown
	}
	switch r {
	case Sat:
		s.NSat++
	case Unsat:
		s.NUnsat++
	default:
		s.NUnknown++
	}
	return r
}

func (s *Solver) check1() (Result, bool) {
	t0 := time.Now()
	s.send("(check-sat)")
	r := Unknown
	hadErr := false
	for {
		l, err := s.readLine()
		if err != nil {
			s.Errors = append(s.Errors, "solver died: "+err.Error())
			s.Time += time.Since(t0)
			return Unknown, true
		}
		if strings.HasPrefix(l, "(error") {
			s.Errors = append(s.Errors, l)
			hadErr = true
			// an (error ...) may precede the verdict; the verdict is not to be trusted
			continue
		}
		switch l {
		case "sat":
			r = Sat
		case "unsat":
			r = Unsat
		case "unknown":
			r = Unknown
		default:
			s.Errors = append(s.Errors, "unexpected solver output: "+l)
			hadErr = true
			continue
		}
		break
	}
	s.Time += time.Since(t0)
	return r, hadErr
}

// CheckWith: is (asserted ∧ extra) satisfiable? Uses an inner scope.
func (s *Solver) CheckWith(extra *Term) Result {
	if b, ok := extra.ConstBool(); ok && !b {
		return Unsat
	}
	s.define(extra) // define in the outer scope so that it can be reused
	s.send("(push 1)")
	s.send(fmt.Sprintf("(assert %s)", Ref(extra)))
	r := s.Check()
	s.send("(pop 1)")
	return r
}

// GetValues returns the values of the given terms in the current model (call
// right after a Sat verdict, in the same scope).
func (s *Solver) GetValues(ts []*Term) (map[*Term]uint64, error) {
	res := map[*Term]uint64{}
	var names []string
	var want []*Term
	for _, t := range ts {
		if t.Op == OConst {
			res[t] = t.U
			continue
		}
		s.define(t)
		names = append(names, Ref(t))
		want = append(want, t)
	}
	if len(names) == 0 {
		return res, nil
	}
	s.send("(get-value (" + strings.Join(names, " ") + "))")
	txt, err := s.readSexp()
	if err != nil {
		return nil, err
	}
	if strings.HasPrefix(txt, "(error") {
		s.Errors = append(s.Errors, txt)
		return nil, fmt.Errorf("solver: %s", txt)
	}
	vals, err := parseValues(txt)
	if err != nil {
		return nil, err
	}
	if len(vals) != len(want) {
		return nil, fmt.Errorf("get-value: %d values for %d terms: %s", len(vals), len(want), txt)
	}
	for i, t := range want {
		res[t] = vals[i]
	}
	return res, nil
}

func (s *Solver) readSexp() (string, error) {
	var sb strings.Builder
	depth := 0
	started := false
	for {
		c, err := s.out.ReadByte()
		if err != nil {
			return "", err
		}
		if !started {
			if c == ' ' || c == '\n' || c == '\r' || c == '\t' {
				continue
			}
			started = true
		}
		sb.WriteByte(c)
		if c == '(' {
			depth++
		} else if c == ')' {
			depth--
			if depth == 0 {
				return sb.String(), nil
			}
		} else if depth == 0 && c == '\n' {
			return strings.TrimSpace(sb.String()), nil
		}
	}
}

// parseValues parses "((name value) (name value) ...)" and returns the values in order.
func parseValues(txt string) ([]uint64, error) {
	toks := tokenize(txt)
	pos := 0
	var parse func() (interface{}, error)
	parse = func() (interface{}, error) {
		if pos >= len(toks) {
			return nil, fmt.Errorf("unexpected end")
		}
		t := toks[pos]
		pos++
		if t == "(" {
			var l []interface{}
			for pos < len(toks) && toks[pos] != ")" {
				x, err := parse()
				if err != nil {
					return nil, err
				}
				l = append(l, x)
			}
			pos++
			return l, nil
		}
		return t, nil
	}
	top, err := parse()
	if err != nil {
		return nil, err
	}
	l, ok := top.([]interface{})
	if !ok {
		return nil, fmt.Errorf("bad get-value reply: %s", txt)
	}
	var out []uint64
	for _, p := range l {
		pair, ok := p.([]interface{})
		if !ok || len(pair) != 2 {
			return nil, fmt.Errorf("bad pair in %s", txt)
		}
		v, err := valueOf(pair[1])
		if err != nil {
			return nil, fmt.Errorf("%v in %s", err, txt)
		}
		out = append(out, v)
	}
	return out, nil
}

func valueOf(x interface{}) (uint64, error) {
	switch v := x.(type) {
	case string:
		switch {
		case v == "true":
			return 1, nil
		case v == "false":
			return 0, nil
		case strings.HasPrefix(v, "#x"):
			return strconv.ParseUint(v[2:], 16, 64)
		case strings.HasPrefix(v, "#b"):
			return strconv.ParseUint(v[2:], 2, 64)
		}
		return 0, fmt.Errorf("unknown value %q", v)
	case []interface{}:
		// (fp s e m) | (_ bvN w) | (_ +zero 11 53) | (_ NaN 11 53) ...
		if len(v) == 4 && v[0] == "fp" {
			sg, e1 := valueOf(v[1])
			ex, e2 := valueOf(v[2])
			ma, e3 := valueOf(v[3])
			if e1 != nil || e2 != nil || e3 != nil {
				return 0, fmt.Errorf("bad fp literal")
			}
			return sg<<63 | ex<<52 | ma, nil
		}
		if len(v) >= 3 && v[0] == "_" {
			name, _ := v[1].(string)
			switch {
			case strings.HasPrefix(name, "bv"):
				return strconv.ParseUint(name[2:], 10, 64)
			case name == "+zero":
				return 0, nil
			case name == "-zero":
				return 1 << 63, nil
			case name == "+oo":
				return 0x7ff << 52, nil
			case name == "-oo":
				return 0xfff << 52, nil
			case name == "NaN":
				return 0x7ff8 << 48, nil
			}
		}
	}
	return 0, fmt.Errorf("unknown value %v", x)
}

func tokenize(s string) []string {
	var toks []string
	i := 0
	for i < len(s) {
		c := s[i]
		switch {
		case c == '(' || c == ')':
			toks = append(toks, string(c))
			i++
		case c == ' ' || c == '\n' || c == '\t' || c == '\r':
			i++
		default:
			j := i
			for j < len(s) && !strings.ContainsRune("() \n\t\r", rune(s[j])) {
				j++
			}
			toks = append(toks, s[i:j])
			i = j
		}
	}
	return toks
}
