// gosmt: bounded symbolic execution of Go (go/ssa) with an SMT solver.
package main

import (
	"crypto/sha256"
	"encoding/json"
	"flag"
	"fmt"
	"os"
	"path/filepath"
	"sort"
	"strconv"
	"strings"
	"sync"
	"time"

	"gosmt/interp"
	"os/exec"

	"golang.org/x/tools/go/packages"
	"golang.org/x/tools/go/ssa"
	"golang.org/x/tools/go/ssa/ssautil"
)

type HarnessSpec struct {
	Name           string                 `json:"name"`
	Pkg            string                 `json:"pkg"`
	Entry          string                 `json:"entry"`
	What           string                 `json:"what"`
	Quick          [][]int64              `json:"quick"`
	Thorough       [][]int64              `json:"thorough"`
	ArgNames       []string               `json:"arg_names"`
	Reach          []string               `json:"reach"`
	Config         map[string]interface{} `json:"config"`
	ThoroughConfig map[string]interface{} `json:"thorough_config"`
	Bounds         map[string]string      `json:"bounds"`
	Outside        []string               `json:"outside"`
	Assumptions    []string               `json:"assumptions"`
	NativeReplay   *bool                  `json:"native_replay"`
	NativeValidate *bool                  `json:"native_validate"` // compare sampled clean paths with the native build (default: yes)
	NativeTries    int                    `json:"native_tries"`    // native replays of a schedule-dependent counterexample (stress loop)
}

func (h *HarnessSpec) native() bool { return h.NativeReplay == nil || *h.NativeReplay }

type Spec struct {
	Property    string        `json:"property"`
	Level       string        `json:"level"`
	Harnesses   []HarnessSpec `json:"harnesses"`
	Assumptions []string      `json:"assumptions"`
	TrustedBase []string      `json:"trusted_base"`
}

type KnownFinding struct {
	ID           string `json:"id"`
	Property     string `json:"property"`
	What         string `json:"what"`
	IdentifiedBy string `json:"identified_by"`
}

type KnownFile struct {
	Findings []KnownFinding `json:"findings"`
	Fixed    []string       `json:"fixed"`
}

var (
	repoDir  = repoDirDefault()
	verifDir = verifDirDefault()
)

// repoDirDefault: /repo; VERIF_REPO points the engine at another working tree of the
// same repository (used only by seedtest.sh, so that a seeded change is applied to a
// scratch worktree and never to /repo; the registered commands do not set it).
func repoDirDefault() string {
	if v := os.Getenv("VERIF_REPO"); v != "" {
		return v
	}
	return "/repo"
}

func verifDirDefault() string {
	if v := os.Getenv("VERIF_DIR"); v != "" {
		return v
	}
	return "/verif"
}

func main() {
	if len(os.Args) < 2 {
		fmt.Fprintln(os.Stderr, "usage: gosmt check|selftest ...")
		os.Exit(2)
	}
	switch os.Args[1] {
	case "check":
		os.Exit(cmdCheck(os.Args[2:]))
	case "replay":
		os.Exit(cmdReplay(os.Args[2:]))
	case "selftest":
		os.Exit(cmdSelftest(os.Args[2:]))
	default:
		fmt.Fprintln(os.Stderr, "unknown command", os.Args[1])
		os.Exit(2)
	}
}

// ---------------------------------------------------------------- loading

type loaded struct {
	prog   *ssa.Program
	pkgs   map[string]*ssa.Package
	repl   map[string]map[string]string // pkg path -> target -> harness func name
	hashes map[string]string
	fset   interface{}
}

// readHarnessFiles returns overlay (abs path -> content) for all *.go under dirs
// having a //verif:dest directive, and the replace directives per destination package dir.
func readHarnessFiles(dirs []string) (map[string][]byte, map[string][][3]string, error) {
	overlay := map[string][]byte{}
	repl := map[string][][3]string{}
	for _, d := range dirs {
		files, _ := filepath.Glob(filepath.Join(d, "*.go"))
		sort.Strings(files)
		for _, f := range files {
			b, err := os.ReadFile(f)
			if err != nil {
				return nil, nil, err
			}
			dest := ""
			var reps [][3]string
			for _, line := range strings.Split(string(b), "\n") {
				line = strings.TrimSpace(line)
				if strings.HasPrefix(line, "//verif:dest ") {
					dest = strings.TrimSpace(strings.TrimPrefix(line, "//verif:dest "))
				}
				if strings.HasPrefix(line, "//verif:replace") {
					// "//verif:replace X = Y" (all harnesses) or "//verif:replace@Name X = Y" (harnesses whose name starts with Name)
					rest := strings.TrimPrefix(line, "//verif:replace")
					scope := ""
					if strings.HasPrefix(rest, "@") {
						sp := strings.SplitN(rest[1:], " ", 2)
						if len(sp) == 2 {
							scope, rest = sp[0], sp[1]
						}
					}
					kv := strings.SplitN(rest, "=", 2)
					if len(kv) == 2 {
						reps = append(reps, [3]string{strings.TrimSpace(kv[0]), strings.TrimSpace(kv[1]), scope})
					}
				}
			}
			if dest == "" {
				continue
			}
			abs := filepath.Join(repoDir, dest)
			overlay[abs] = b
			dir := filepath.Dir(dest)
			repl[dir] = append(repl[dir], reps...)
		}
	}
	return overlay, repl, nil
}

func load(overlay map[string][]byte, pkgPaths []string) (*ssa.Program, map[string]*ssa.Package, error) {
	cfg := &packages.Config{
		Mode:    packages.LoadAllSyntax,
		Dir:     repoDir,
		Overlay: overlay,
		Env:     append(os.Environ(), "GOFLAGS=-mod=mod", "GOPROXY=off", "GOSUMDB=off", "GOTOOLCHAIN=local", "CGO_ENABLED=1"),
	}
	initial, err := packages.Load(cfg, pkgPaths...)
	if err != nil {
		return nil, nil, err
	}
	var errs []string
	packages.Visit(initial, nil, func(p *packages.Package) {
		for _, e := range p.Errors {
			errs = append(errs, p.PkgPath+": "+e.Error())
		}
	})
	if len(errs) > 0 {
		return nil, nil, fmt.Errorf("HARNESS-STALE %s", strings.Join(errs, "\n  "))
	}
	prog, _ := ssautil.AllPackages(initial, ssa.InstantiateGenerics)
	pkgs := map[string]*ssa.Package{}
	for _, p := range prog.AllPackages() {
		pkgs[p.Pkg.Path()] = p
	}
	return prog, pkgs, nil
}

var initAllow = map[string]bool{
	"strings": true, "bytes": true, "bufio": true, "strconv": true, "unicode": true, "unicode/utf8": true,
	"encoding/base64": true, "errors": false, "io": true, "path/filepath": true, "sort": true, "context": true,
	"math": true, "path": true, "regexp": true, "regexp/syntax": true, "io/fs": true, "internal/oserror": true, "encoding/binary": true,
	"golang.org/x/crypto/ssh/knownhosts": false,
}

func initPolicy(p *ssa.Package) bool {
	path := p.Pkg.Path()
	if strings.HasPrefix(path, "github.com/mimecast/dtail") {
		return true
	}
	return initAllow[path]
}

// ---------------------------------------------------------------- check

type instanceResult struct {
	h    *HarnessSpec
	args []int64
	ex   *interp.Explorer
}

func cfgInt(m map[string]interface{}, k string, def int64) int64 {
	if v, ok := m[k]; ok {
		switch x := v.(type) {
		case float64:
			return int64(x)
		}
	}
	return def
}
func cfgBool(m map[string]interface{}, k string) bool {
	if v, ok := m[k]; ok {
		b, _ := v.(bool)
		return b
	}
	return false
}

func cmdCheck(argv []string) int {
	fs := flag.NewFlagSet("check", flag.ExitOnError)
	prop := fs.String("property", "", "property id (C01..)")
	tier := fs.String("tier", "quick", "quick|thorough")
	seed := fs.Int64("seed", 0, "seed")
	workers := fs.Int("workers", 16, "total solver workers")
	only := fs.String("only", "", "run only harnesses whose name has this prefix")
	onlyArgs := fs.String("args", "", "run only this argument tuple, e.g. 3,2,4")
	verbose := fs.Bool("v", false, "verbose")
	noEvidence := fs.Bool("no-evidence", false, "do not write the evidence file")
	maxWall := fs.Duration("max-wall", 0, "override wall budget per instance")
	doReplay := fs.Bool("native", true, "replay counterexamples and sampled paths on the native build")
	nvalidate := fs.Int("validate", 2, "witness paths per instance validated against the native build")
	fs.Parse(argv)
	if v := os.Getenv("VERIF_SEED"); v != "" {
		if n, err := strconv.ParseInt(v, 10, 64); err == nil {
			*seed = n
		}
	}
	if v := os.Getenv("VERIF_TIER"); v != "" && (v == "quick" || v == "thorough") {
		*tier = v
	}
	t0 := time.Now()
	hdir := filepath.Join(verifDir, "harness", *prop)
	sb, err := os.ReadFile(filepath.Join(hdir, "spec.json"))
	if err != nil {
		fmt.Fprintln(os.Stderr, "cannot read spec:", err)
		return 3
	}
	var spec Spec
	if err := json.Unmarshal(sb, &spec); err != nil {
		fmt.Fprintln(os.Stderr, "bad spec.json:", err)
		return 3
	}
	var kf KnownFile
	if b, err := os.ReadFile(filepath.Join(verifDir, "known_findings.json")); err == nil {
		if err := json.Unmarshal(b, &kf); err != nil {
			fmt.Fprintln(os.Stderr, "bad known_findings.json:", err)
			return 3
		}
	}
	known := map[string]bool{}
	kfByID := map[string]KnownFinding{}
	for _, f := range kf.Findings {
		known[f.ID] = true
		kfByID[f.ID] = f
	}

	overlay, repl, err := readHarnessFiles([]string{hdir, filepath.Join(verifDir, "harness", "verifrt"), filepath.Join(verifDir, "harness", "common")})
	if err != nil {
		fmt.Fprintln(os.Stderr, err)
		return 3
	}
	pkgSet := map[string]bool{}
	for _, h := range spec.Harnesses {
		pkgSet[h.Pkg] = true
	}
	var pkgPaths []string
	for p := range pkgSet {
		pkgPaths = append(pkgPaths, p)
	}
	sort.Strings(pkgPaths)
	tl := time.Now()
	prog, pkgs, err := load(overlay, pkgPaths)
	// A harness file that no longer type-checks against the current tree (a function it
	// names was renamed, say) is dropped and the load repeated: the harnesses that live in
	// other files still run and may report a violation; the dropped ones make the result
	// inconclusive (exit 3), never a violation and never a pass.
	staleDropped := map[string]bool{}
	for tries := 0; err != nil && tries < 4; tries++ {
		fmt.Println(err)
		dropped := 0
		for abs := range overlay {
			base := filepath.Base(abs)
			if (strings.HasPrefix(base, "zz_verif_") || strings.Contains(abs, "/verifh/")) && strings.Contains(err.Error(), abs+":") {
				delete(overlay, abs)
				staleDropped[base] = true
				dropped++
				fmt.Printf("HARNESS-STALE dropping %s and retrying with the other harness files\n", base)
			}
		}
		if dropped == 0 {
			break
		}
		prog, pkgs, err = load(overlay, pkgPaths)
	}
	if err != nil {
		fmt.Println(err)
		fmt.Println("INCONCLUSIVE property=" + *prop + " harness does not type-check against the current tree")
		return 3
	}
	loadTime := time.Since(tl)

	// resolve replacements (global across harness packages)
	type scopedRepl struct {
		target string
		fn     *ssa.Function
		scope  string
	}
	var allRepl []scopedRepl
	var staleScopes []string
	for dir, reps := range repl {
		pp := "github.com/mimecast/dtail/" + dir
		sp := pkgs[pp]
		if sp == nil {
			continue
		}
		for _, r := range reps {
			if r[1] == "-" && r[2] != "" {
				// "//verif:replace@Name X = -": harnesses named Name* run the real X although an
				// unscoped directive replaces it for everybody else
				allRepl = append(allRepl, scopedRepl{r[0], nil, r[2]})
				continue
			}
			f := sp.Func(r[1])
			if f == nil {
				fmt.Printf("HARNESS-STALE replacement function %s not found in %s\n", r[1], pp)
				if len(staleDropped) > 0 && r[2] != "" {
					// it lived in a dropped file: the harnesses it was meant for do not run
					staleScopes = append(staleScopes, r[2])
					continue
				}
				return 3
			}
			allRepl = append(allRepl, scopedRepl{r[0], f, r[2]})
		}
	}
	// the longest matching scope wins (a directive for C14f overrides one for C14)
	sort.SliceStable(allRepl, func(i, j int) bool { return len(allRepl[i].scope) < len(allRepl[j].scope) })
	replaceFor := func(harness string) map[string]*ssa.Function {
		m := map[string]*ssa.Function{}
		for _, r := range allRepl {
			if r.scope == "" {
				m[r.target] = r.fn
			}
		}
		for _, r := range allRepl {
			if r.scope != "" && strings.HasPrefix(harness, r.scope) {
				if r.fn == nil {
					delete(m, r.target)
				} else {
					m[r.target] = r.fn
				}
			}
		}
		return m
	}

	type job struct {
		h    *HarnessSpec
		args []int64
	}
	var jobs []job
	for i := range spec.Harnesses {
		h := &spec.Harnesses[i]
		if *only != "" && !strings.HasPrefix(h.Name, *only) {
			continue
		}
		insts := h.Quick
		if *tier == "thorough" && len(h.Thorough) > 0 {
			insts = h.Thorough
		}
		if len(insts) == 0 {
			insts = [][]int64{nil}
		}
		for _, a := range insts {
			if *onlyArgs != "" {
				var parts []string
				for _, x := range a {
					parts = append(parts, fmt.Sprint(x))
				}
				if strings.Join(parts, ",") != *onlyArgs {
					continue
				}
			}
			jobs = append(jobs, job{h, a})
		}
	}
	if len(jobs) == 0 {
		fmt.Println("no harness instances selected")
		return 3
	}
	// concurrency: several instances at once, each with a share of the workers
	par := *workers / 2
	if par < 1 {
		par = 1
	}
	if len(jobs) < par {
		par = len(jobs)
	}
	per := *workers
	globalSem := make(chan struct{}, *workers)
	results := make([]*instanceResult, len(jobs))
	var wg sync.WaitGroup
	sem := make(chan struct{}, par)
	for ji, j := range jobs {
		wg.Add(1)
		sem <- struct{}{}
		go func(ji int, j job) {
			defer wg.Done()
			defer func() { <-sem }()
			sp := pkgs[j.h.Pkg]
			if sp == nil {
				fmt.Printf("HARNESS-STALE package %s not loaded\n", j.h.Pkg)
				return
			}
			for _, sc := range staleScopes {
				if strings.HasPrefix(j.h.Name, sc) {
					fmt.Printf("HARNESS-STALE %s not run: a stand-in it needs lived in a dropped harness file\n", j.h.Name)
					return
				}
			}
			sp.Build()
			entry := sp.Func(j.h.Entry)
			if entry == nil {
				fmt.Printf("HARNESS-STALE entry %s.%s not found\n", j.h.Pkg, j.h.Entry)
				return
			}
			cfg := interp.DefaultConfig()
			cfg.Workers = per
			cfg.Seed = *seed
			c := map[string]interface{}{}
			for k, v := range j.h.Config {
				c[k] = v
			}
			if *tier == "thorough" {
				for k, v := range j.h.ThoroughConfig {
					c[k] = v
				}
			}
			cfg.MaxInstrs = cfgInt(c, "max_instrs", cfg.MaxInstrs)
			cfg.MaxPaths = cfgInt(c, "max_paths", cfg.MaxPaths)
			cfg.MaxGoroutines = int(cfgInt(c, "max_goroutines", int64(cfg.MaxGoroutines)))
			cfg.MaxPreempt = int(cfgInt(c, "preempt", 0))
			cfg.SymSched = cfgBool(c, "sym_sched")
			cfg.Delays = int(cfgInt(c, "delays", 0))
			cfg.DelayPreempt = cfgBool(c, "delay_preempt")
			cfg.DelayAny = cfgBool(c, "delay_any")
			cfg.SelectFirst = cfgBool(c, "select_first")
			cfg.SymMapOrder = cfgBool(c, "sym_map_order")
			cfg.ConcretizeCap = int(cfgInt(c, "concretize_cap", int64(cfg.ConcretizeCap)))
			cfg.MaxWall = time.Duration(cfgInt(c, "max_wall_s", 900)) * time.Second
			if *maxWall > 0 {
				cfg.MaxWall = *maxWall
			}
			ex := &interp.Explorer{Sem: globalSem, Cfg: cfg, Prog: prog, Entry: entry, Args: j.args, Replace: replaceFor(j.h.Name), KnownIDs: known, InitPkgs: initPolicy}
			ex.Run()
			results[ji] = &instanceResult{h: j.h, args: j.args, ex: ex}
			if *verbose {
				fmt.Printf("  %s%v: paths=%d ok=%d infeasible=%d inconcl=%d viol=%d decisions=%d sat/unsat/unk=%d/%d/%d solver=%.1fs wall=%.1fs\n",
					j.h.Name, j.args, ex.Paths, ex.PathsOK, ex.PathsInfeasible, ex.PathsInconclusive, len(ex.Violations), ex.Decisions,
					ex.SolverSat, ex.SolverUnsat, ex.SolverUnknown, ex.SolverTime.Seconds(), ex.Wall.Seconds())
				for k, n := range ex.Inconclusive {
					fmt.Printf("     inconclusive x%d: %s\n", n, k)
				}
			}
		}(ji, j)
	}
	wg.Wait()

	// ------------------------------------------------------------ aggregate
	exit := 0
	var states, transitions, obligations, discharged, instrs int64
	var sat, unsat, unknown int
	var solverTime time.Duration
	funcs := map[string]int{}
	funcFiles := map[string]string{}
	intr := map[string]int{}
	stubs := map[string]int{}
	once := map[string]int{}
	inconcl := map[string]int{}
	reduced := map[string]int{}
	reducedBounds = reduced
	findings := map[string]int{}
	findingSample := map[string]map[string]uint64{}
	reachAll := map[string]bool{}
	var samples []interface{}
	var instSummaries []map[string]interface{}
	nviol := 0
	replayDir := filepath.Join(verifDir, "evidence", "replay")
	os.MkdirAll(replayDir, 0o755)
	// remove stale replay files of this property
	if old, _ := filepath.Glob(filepath.Join(replayDir, *prop+"-*.json")); !*noEvidence {
		for _, f := range old {
			os.Remove(f)
		}
	}
	missingReach := []string{}
	type cex struct {
		r    *instanceResult
		v    *interp.Violation
		path string
	}
	var cexs []cex
	for _, r := range results {
		if r == nil {
			exit = 3
			continue
		}
		ex := r.ex
		states += ex.Paths
		transitions += ex.Decisions
		obligations += ex.Obligations
		discharged += ex.Discharged
		instrs += ex.Instrs
		sat += ex.SolverSat
		unsat += ex.SolverUnsat
		unknown += ex.SolverUnknown
		solverTime += ex.SolverTime
		for k, v := range ex.Funcs {
			funcs[k] += v
		}
		for k, v := range ex.FuncFiles {
			funcFiles[strings.ReplaceAll(k, "github.com/mimecast/dtail/", "")] = v
		}
		for k, v := range ex.Intrinsics {
			intr[k] += v
		}
		for k, v := range ex.Stubs {
			stubs[k] += v
		}
		for k, v := range ex.Once {
			once[k] += v
		}
		for k, v := range ex.Inconclusive {
			if k == "path: run stopped" && ex.Inconclusive["wall-clock budget exhausted"] == 0 && len(ex.Violations) > 0 {
				continue // stopped after the first counterexamples: the run ends with a violation anyway
			}
			if k == "wall-clock budget exhausted" || (k == "path: run stopped" && ex.Inconclusive["wall-clock budget exhausted"] > 0) {
				// a resource limit that depends on machine load, not on the code: the
				// instance is reported as covered up to the paths explored (reduced bound)
				reduced[fmt.Sprintf("%s%v", r.h.Name, r.args)] = int(ex.Paths)
				continue
			}
			inconcl[fmt.Sprintf("%s%v: %s", r.h.Name, r.args, k)] += v
		}
		for k, v := range ex.Findings {
			findings[k] += v
			if _, ok := findingSample[k]; !ok {
				findingSample[k] = ex.FindingSample[k]
			}
		}
		for k := range ex.Reached {
			reachAll[r.h.Name+":"+k] = true
		}
		for _, e := range ex.SolverErrors {
			inconcl["solver error: "+e]++
		}
		for i, wit := range ex.Witnesses {
			if i < 2 && len(samples) < 12 {
				samples = append(samples, map[string]interface{}{"harness": r.h.Name, "args": r.args, "witness": wit})
			}
		}
		instSummaries = append(instSummaries, map[string]interface{}{
			"harness": r.h.Name, "args": r.args, "paths": ex.Paths, "paths_ok": ex.PathsOK, "paths_infeasible": ex.PathsInfeasible,
			"paths_inconclusive": ex.PathsInconclusive, "decisions": ex.Decisions, "obligations": ex.Obligations, "discharged": ex.Discharged,
			"violations": len(ex.Violations), "wall_s": round2(ex.Wall.Seconds()), "solver_s": round2(ex.SolverTime.Seconds()), "max_trace": ex.MaxTrace,
		})
		for _, v := range ex.Violations {
			nviol++
			path := filepath.Join(replayDir, fmt.Sprintf("%s-%d.json", *prop, nviol))
			rep := map[string]interface{}{"property": *prop, "harness": r.h.Name, "entry": r.h.Entry, "pkg": r.h.Pkg, "pkg_name": pkgs[r.h.Pkg].Pkg.Name(), "args": r.args,
				"what": v.What, "site": v.Site, "model": v.Model, "decisions": v.Trace, "stack": v.Stack, "observed": v.Notes}
			b, _ := json.MarshalIndent(rep, "", " ")
			os.WriteFile(path, b, 0o644)
			cexs = append(cexs, cex{r: r, v: v, path: path})
		}
	}
	// ------------------------------------------------------------ native replay of counterexamples
	var knownIDs []string
	for id := range known {
		knownIDs = append(knownIDs, id)
	}
	sort.Strings(knownIDs)
	nb, nberr := newNativeBuilder(*prop, knownIDs)
	if nberr == nil {
		defer nb.close()
	}
	entriesOf := func(pkg string) []entrySig {
		var es []entrySig
		seen := map[string]bool{}
		for i := range spec.Harnesses {
			h := &spec.Harnesses[i]
			if h.Pkg != pkg || seen[h.Entry] || !h.native() {
				continue
			}
			seen[h.Entry] = true
			if f := pkgs[pkg].Func(h.Entry); f != nil {
				es = append(es, entrySig{h.Entry, f.Signature.Params().Len()})
			}
		}
		return es
	}
	confirmed, unconfirmed, reported := 0, 0, 0
	for i, c := range cexs {
		if reported >= 5 {
			fmt.Printf("  (%d further counterexamples not listed)\n", len(cexs)-i)
			break
		}
		fmt.Printf("  counterexample in %s%v: %s\n    site: %s\n    model: %s\n", c.r.h.Name, c.r.args, c.v.What, c.v.Site, modelString(c.v.Model))
		status := "not replayed natively (harness depends on engine stubs); holds for the SSA encoding of the real code"
		if c.r.h.native() && nberr == nil && *doReplay {
			bin, err := nb.build(c.r.h.Pkg, pkgs[c.r.h.Pkg].Pkg.Name(), entriesOf(c.r.h.Pkg))
			if err != nil {
				fmt.Printf("    native replay unavailable: %v\n", err)
				unconfirmed++
				continue
			}
			tries := c.r.h.NativeTries
			if tries < 1 {
				tries = 1
			}
			var res *nativeResult
			hits := 0
			for t := 0; t < tries; t++ {
				res, err = nb.run(bin, c.r.h.Entry, c.r.args, c.path, 3*time.Minute)
				if err != nil {
					break
				}
				if res.violated() {
					hits++
					break
				}
			}
			if err != nil {
				fmt.Printf("    native replay error: %v\n", err)
				unconfirmed++
				continue
			}
			if tries > 1 {
				fmt.Printf("    native stress replay: up to %d runs, reproduced: %v\n", tries, hits > 0)
			}
			if !res.violated() {
				fmt.Printf("    NOT reproduced natively: encoder or stub error suspected (no VIOLATION reported for it)\n")
				unconfirmed++
				continue
			}
			if len(res.failed) > 0 {
				status = "reproduced natively: " + res.failed[0]
			} else {
				status = "reproduced natively: panic " + res.panicked
			}
		}
		confirmed++
		reported++
		fmt.Printf("    %s\n", status)
		fmt.Printf("VIOLATION property=%s replay=%s\n", *prop, c.path)
		exit = 1
	}
	if confirmed == 0 && unconfirmed > 0 {
		fmt.Printf("INCONCLUSIVE property=%s: %d counterexample(s) of the encoding did not reproduce on the native build\n", *prop, unconfirmed)
		exit = 3
	}
	// ------------------------------------------------------------ translation validation on sampled paths
	validated, mismatched := 0, 0
	if exit == 0 && nberr == nil && *doReplay {
		for _, r := range results {
			if r == nil || !r.h.native() || (r.h.NativeValidate != nil && !*r.h.NativeValidate) {
				continue
			}
			for wi, wit := range r.ex.Witnesses {
				if wi >= *nvalidate {
					break
				}
				bin, err := nb.build(r.h.Pkg, pkgs[r.h.Pkg].Pkg.Name(), entriesOf(r.h.Pkg))
				if err != nil {
					fmt.Printf("native build failed: %v\n", err)
					mismatched++
					break
				}
				mf := filepath.Join(nb.tmp, "witness.json")
				wb, _ := json.Marshal(map[string]interface{}{"model": wit["model"]})
				os.WriteFile(mf, wb, 0o644)
				res, err := nb.run(bin, r.h.Entry, r.args, mf, time.Minute)
				wantF, _ := wit["findings"].([]string)
				if err != nil || res.violated() || strings.Join(dedupSorted(res.findings), ",") != strings.Join(wantF, ",") {
					mismatched++
					fmt.Printf("TRANSLATION-MISMATCH %s%v: native run of a path the engine found clean: failed=%v panic=%q findings=%v (engine: %v) err=%v model=%v\n",
						r.h.Name, r.args, res.failed, res.panicked, res.findings, wantF, err, wit["model"])
					continue
				}
				validated++
			}
		}
		if mismatched > 0 {
			fmt.Printf("INCONCLUSIVE property=%s: the native build disagrees with the engine on %d sampled paths\n", *prop, mismatched)
			exit = 3
		}
	}
	// vacuity: every declared reach label must have been hit in some instance of its harness
	for i := range spec.Harnesses {
		h := &spec.Harnesses[i]
		ran := false
		for _, r := range results {
			if r != nil && r.h == h {
				ran = true
			}
		}
		if !ran {
			continue
		}
		for _, l := range h.Reach {
			if !reachAll[h.Name+":"+l] {
				missingReach = append(missingReach, h.Name+":"+l)
			}
		}
	}
	if exit == 0 && len(missingReach) > 0 && *onlyArgs == "" {
		fmt.Printf("INCONCLUSIVE property=%s vacuity: reach labels never hit: %v\n", *prop, missingReach)
		exit = 3
	}
	if len(reduced) > 0 {
		keys := make([]string, 0, len(reduced))
		for k := range reduced {
			keys = append(keys, k)
		}
		sort.Strings(keys)
		for _, k := range keys {
			fmt.Printf("REDUCED-BOUND property=%s %s: wall-clock budget reached after %d paths; the paths explored held, the rest of this instance is not covered by this run\n", *prop, k, reduced[k])
		}
	}
	if exit == 0 && len(inconcl) > 0 {
		fmt.Printf("INCONCLUSIVE property=%s (bounds not covered cleanly):\n", *prop)
		keys := make([]string, 0, len(inconcl))
		for k := range inconcl {
			keys = append(keys, k)
		}
		sort.Strings(keys)
		for _, k := range keys {
			fmt.Printf("   x%d %s\n", inconcl[k], k)
		}
		exit = 3
	}
	fkeys := make([]string, 0, len(findings))
	for k := range findings {
		fkeys = append(fkeys, k)
	}
	sort.Strings(fkeys)
	for _, k := range fkeys {
		f := kfByID[k]
		fmt.Printf("KNOWN-FINDING: property=%s %s %s (exhibited on %d paths; e.g. %s)\n", *prop, k, f.What, findings[k], modelString(findingSample[k]))
	}
	wall := time.Since(t0)
	fmt.Printf("%s %s: instances=%d paths=%d decisions=%d obligations=%d/%d queries sat/unsat/unknown=%d/%d/%d solver=%.1fs load=%.1fs wall=%.1fs exit=%d\n",
		*prop, *tier, len(jobs), states, transitions, discharged, obligations, sat, unsat, unknown, solverTime.Seconds(), loadTime.Seconds(), wall.Seconds(), exit)

	if !*noEvidence {
		writeEvidence(*prop, *tier, *seed, &spec, prog, states, transitions, obligations, discharged, instrs, sat, unsat, unknown, solverTime,
			funcs, intr, stubs, once, inconcl, findings, funcFiles, reachAll, samples, instSummaries, nviol, wall, exit, validated)
	}
	return exit
}

func round2(f float64) float64 { return float64(int64(f*100+0.5)) / 100 }

func modelString(m map[string]uint64) string {
	keys := make([]string, 0, len(m))
	for k := range m {
		keys = append(keys, k)
	}
	sort.Strings(keys)
	var sb strings.Builder
	for i, k := range keys {
		if i > 0 {
			sb.WriteByte(' ')
		}
		if i > 40 {
			sb.WriteString("...")
			break
		}
		fmt.Fprintf(&sb, "%s=%#x", k, m[k])
	}
	return sb.String()
}

var reducedBounds map[string]int

func solverVersion() string {
	cmd := interp.SolverCmd()
	out, err := exec.Command(cmd[0], "--version").Output()
	if err != nil {
		return strings.Join(cmd, " ")
	}
	return strings.Join(cmd, " ") + " (" + strings.TrimSpace(string(out)) + ")"
}

func writeEvidence(prop, tier string, seed int64, spec *Spec, prog *ssa.Program, states, transitions, obligations, discharged, instrs int64,
	sat, unsat, unknown int, solverTime time.Duration, funcs, intr, stubs, once, inconcl, findings map[string]int, funcFiles map[string]string, reach map[string]bool,
	samples []interface{}, insts []map[string]interface{}, nviol int, wall time.Duration, exit int, validated int) {

	// functions encoded: the dtail ones with a source hash
	type fe struct {
		Fn    string `json:"fn"`
		Calls int    `json:"calls"`
		Sha   string `json:"sha,omitempty"`
	}
	var dtailFns []fe
	var otherFns []string
	fileHash := map[string]string{}
	names := make([]string, 0, len(funcs))
	for k := range funcs {
		names = append(names, k)
	}
	sort.Strings(names)
	for _, n := range names {
		file := funcFiles[n]
		if file == "" {
			file = funcFiles[strings.ReplaceAll(n, "github.com/mimecast/dtail/", "")]
		}
		harnessFn := strings.HasPrefix(filepath.Base(file), "zz_verif") || strings.Contains(n, "/verifrt") || strings.Contains(n, "/verifh/")
		if strings.Contains(n, "github.com/mimecast/dtail") && !harnessFn {
			dtailFns = append(dtailFns, fe{Fn: strings.ReplaceAll(n, "github.com/mimecast/dtail/", ""), Calls: funcs[n]})
		} else {
			otherFns = append(otherFns, n)
		}
	}
	for i := range dtailFns {
		full := "github.com/mimecast/dtail/" + dtailFns[i].Fn
		full = strings.Replace(full, "(*github.com/mimecast/dtail/", "(*", 1)
		_ = full
	}
	for i := range dtailFns {
		if f, ok := funcFiles[dtailFns[i].Fn]; ok {
			if _, ok := fileHash[f]; !ok {
				if b, err := os.ReadFile(f); err == nil {
					fileHash[f] = fmt.Sprintf("%x", sha256.Sum256(b))[:16]
				}
			}
			dtailFns[i].Sha = filepath.Base(f) + ":" + fileHash[f]
		}
	}
	keysOf := func(m map[string]int) []string {
		ks := make([]string, 0, len(m))
		for k := range m {
			ks = append(ks, k)
		}
		sort.Strings(ks)
		return ks
	}
	rk := make([]string, 0, len(reach))
	for k := range reach {
		rk = append(rk, k)
	}
	sort.Strings(rk)
	bounds := map[string]interface{}{}
	outside := []string{}
	assumptions := append([]string{}, spec.Assumptions...)
	for _, hs := range spec.Harnesses {
		b := map[string]interface{}{"what": hs.What, "arg_names": hs.ArgNames, "bounds": hs.Bounds}
		if tier == "thorough" && len(hs.Thorough) > 0 {
			b["instances"] = hs.Thorough
		} else {
			b["instances"] = hs.Quick
		}
		bounds[hs.Name] = b
		outside = append(outside, hs.Outside...)
		assumptions = append(assumptions, hs.Assumptions...)
	}
	if len(samples) == 0 {
		samples = append(samples, "no witness collected")
	}
	level := spec.Level
	if level == "" {
		level = "model_checking"
	}
	cov := map[string]interface{}{
		"states": states, "transitions": transitions, "traces_validated_against_impl": validated,
		"samples": samples, "obligations": obligations, "discharged": discharged,
		"evaluations": states, "distinct_nontrivial": states,
		"rule":          "one evaluation = one feasible symbolic path of a harness (distinct decision trace); each path covers every value of the symbolic inputs satisfying its path condition",
		"queries":       map[string]int{"sat": sat, "unsat": unsat, "unknown": unknown},
		"solver_time_s": round2(solverTime.Seconds()), "instructions_interpreted": instrs,
		"functions_encoded": dtailFns, "other_functions_from_ssa": otherFns,
		"intrinsics": keysOf(intr), "stubs": keysOf(stubs), "notes": keysOf(once),
		"reach_witnesses": rk, "bounds": bounds, "outside_the_claim": outside,
		"instances": insts, "known_findings_seen": keysOf(findings), "inconclusive": keysOf(inconcl),
		"paths_cut_by_budget": len(inconcl), "exhaustive": len(inconcl) == 0 && len(reducedBounds) == 0,
		"reduced_bounds": reducedBounds,
		"checker_cmd":    solverVersion() + ", SMT-LIB2 over one pipe per worker", "trusted_base": spec.TrustedBase,
		"explanation": "bounded symbolic execution of the real functions from go/ssa; every branch and assertion decided by the SMT solver; bounds listed under 'bounds'",
		"exit":        exit,
	}
	ev := map[string]interface{}{
		"property_id": prop, "tier": tier, "seed": seed, "level": level, "coverage": cov,
		"assumptions": assumptions, "wall_s": round2(wall.Seconds()), "violations": nviol,
	}
	b, _ := json.MarshalIndent(ev, "", " ")
	os.MkdirAll(filepath.Join(verifDir, "evidence"), 0o755)
	os.WriteFile(filepath.Join(verifDir, "evidence", prop+".json"), b, 0o644)
}

func cmdSelftest(argv []string) int {
	return selftest(argv)
}

func dedupSorted(a []string) []string {
	m := map[string]bool{}
	for _, x := range a {
		m[x] = true
	}
	out := make([]string, 0, len(m))
	for x := range m {
		out = append(out, x)
	}
	sort.Strings(out)
	return out
}
