package main

import (
	"fmt"
	"os"
)

// selftest: the translator validation corpus (harness/selftest) must pass, and
// a deliberately false assertion must be found, replayed natively and reported.
func selftest(argv []string) int {
	if rc := cmdCheck([]string{"-property", "selftest", "-no-evidence"}); rc != 0 {
		fmt.Println("SELFTEST FAILED: the interpreter corpus does not pass")
		return 1
	}
	// (the expected VIOLATION line of the must-fail case is not printed)
	saved := os.Stdout
	if null, err := os.OpenFile(os.DevNull, os.O_WRONLY, 0); err == nil {
		os.Stdout = null
	}
	rc := cmdCheck([]string{"-property", "selftestfail", "-no-evidence"})
	rc2 := cmdCheck([]string{"-property", "selftestrace", "-no-evidence", "-only", "rlock"})
	rc3 := cmdCheck([]string{"-property", "selftestrace", "-no-evidence", "-only", "maprace"})
	os.Stdout = saved
	if rc != 1 {
		fmt.Println("SELFTEST FAILED: a false assertion was not reported as a violation")
		return 1
	}
	if rc2 != 1 {
		fmt.Println("SELFTEST FAILED: a lost update under a read lock was not found by the scheduler model")
		return 1
	}
	if rc3 != 1 {
		fmt.Println("SELFTEST FAILED: a map written by one goroutine while another ranges over it was not reported")
		return 1
	}
	fmt.Println("selftest ok (corpus passes; the must-fail case was found and reproduced natively)")
	return 0
}
