package main

func selftest(argv []string) int { return 0 }
