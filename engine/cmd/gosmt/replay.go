package main

import (
	"context"
	"encoding/json"
	"flag"
	"fmt"
	"os"
	"os/exec"
	"path/filepath"
	"sort"
	"strings"
	"time"
)

type replayFile struct {
	Property string            `json:"property"`
	Harness  string            `json:"harness"`
	Entry    string            `json:"entry"`
	Pkg      string            `json:"pkg"`
	PkgName  string            `json:"pkg_name"`
	Args     []int64           `json:"args"`
	What     string            `json:"what"`
	Model    map[string]uint64 `json:"model"`
}

// nativeBuilder compiles, once per package, a test binary that can run any
// harness entry of that package natively against the real build of /repo
// (go test -c -overlay); verifrt then reads the solver's model from a file.
type nativeBuilder struct {
	prop  string
	tmp   string
	bins  map[string]string // pkg -> binary
	errs  map[string]error
	known []string
}

type entrySig struct {
	name  string
	arity int
}

func newNativeBuilder(prop string, known []string) (*nativeBuilder, error) {
	tmp, err := os.MkdirTemp("", "gosmt-replay-")
	if err != nil {
		return nil, err
	}
	return &nativeBuilder{prop: prop, tmp: tmp, bins: map[string]string{}, errs: map[string]error{}, known: known}, nil
}

func (nb *nativeBuilder) close() { os.RemoveAll(nb.tmp) }

func (nb *nativeBuilder) env(model string) []string {
	env := append(os.Environ(), "GOFLAGS=-mod=mod", "GOPROXY=off", "GOSUMDB=off", "GOTOOLCHAIN=local", "VERIF_MODEL="+model)
	for _, k := range nb.known {
		env = append(env, "VERIF_KNOWN_"+strings.ReplaceAll(k, "-", "_")+"=1")
	}
	return env
}

func (nb *nativeBuilder) build(pkg, pkgName string, entries []entrySig) (string, error) {
	if b, ok := nb.bins[pkg]; ok {
		return b, nb.errs[pkg]
	}
	hdir := filepath.Join(verifDir, "harness", nb.prop)
	overlay, _, err := readHarnessFiles([]string{hdir, filepath.Join(verifDir, "harness", "verifrt"), filepath.Join(verifDir, "harness", "common")})
	if err != nil {
		return "", err
	}
	repl := map[string]string{}
	dir := filepath.Join(nb.tmp, fmt.Sprintf("p%d", len(nb.bins)))
	os.MkdirAll(dir, 0o755)
	i := 0
	dsts := make([]string, 0, len(overlay))
	for d := range overlay {
		dsts = append(dsts, d)
	}
	sort.Strings(dsts)
	for _, dst := range dsts {
		f := filepath.Join(dir, fmt.Sprintf("h%d.go", i))
		i++
		if err := os.WriteFile(f, overlay[dst], 0o644); err != nil {
			return "", err
		}
		repl[dst] = f
	}
	var cases strings.Builder
	for _, e := range entries {
		var as []string
		for k := 0; k < e.arity; k++ {
			as = append(as, fmt.Sprintf("args[%d]", k))
		}
		fmt.Fprintf(&cases, "\t\tcase %q:\n\t\t\t%s(%s)\n", e.name, e.name, strings.Join(as, ", "))
	}
	test := fmt.Sprintf(`package %s

import (
	"fmt"
	"os"
	"strconv"
	"strings"
	"testing"

	"github.com/mimecast/dtail/internal/verifrt"
)

func TestVerifReplay(t *testing.T) {
	verifrt.Reset()
	entry := os.Getenv("VERIF_ENTRY")
	var args []int
	for _, a := range strings.Split(os.Getenv("VERIF_ARGS"), ",") {
		if a != "" {
			n, _ := strconv.Atoi(a)
			args = append(args, n)
		}
	}
	func() {
		defer func() {
			if r := recover(); r != nil {
				fmt.Printf("REPLAY-PANIC: %%v\n", r)
			}
		}()
		switch entry {
%s		default:
			panic("verifrt: unknown entry " + entry)
		}
	}()
	for _, f := range verifrt.Failures {
		fmt.Printf("REPLAY-FAILED: %%s\n", f)
	}
	for _, f := range verifrt.Findings {
		fmt.Printf("REPLAY-FINDING: %%s\n", f)
	}
	for _, o := range verifrt.Observed {
		fmt.Printf("REPLAY-OBSERVED: %%s\n", o)
	}
	fmt.Println("REPLAY-DONE")
}
`, pkgName, cases.String())
	tf := filepath.Join(dir, "replay_test.go")
	os.WriteFile(tf, []byte(test), 0o644)
	pkgDir := filepath.Join(repoDir, strings.TrimPrefix(pkg, "github.com/mimecast/dtail/"))
	repl[filepath.Join(pkgDir, "zz_verif_replay_test.go")] = tf
	ob, _ := json.Marshal(map[string]interface{}{"Replace": repl})
	of := filepath.Join(dir, "overlay.json")
	os.WriteFile(of, ob, 0o644)
	bin := filepath.Join(dir, "replay.test")
	ctx, cancel := context.WithTimeout(context.Background(), 10*time.Minute)
	defer cancel()
	cmd := exec.CommandContext(ctx, "go", "test", "-c", "-vet=off", "-overlay", of, "-o", bin, pkg)
	cmd.Dir = repoDir
	cmd.Env = nb.env("")
	out, err := cmd.CombinedOutput()
	if err != nil {
		err = fmt.Errorf("native build of the harness failed: %v\n%s", err, out)
	}
	nb.bins[pkg] = bin
	nb.errs[pkg] = err
	return bin, err
}

type nativeResult struct {
	failed   []string
	findings []string
	panicked string
	out      string
}

// run executes one entry natively under the given model file.
func (nb *nativeBuilder) run(bin, entry string, args []int64, modelFile string, timeout time.Duration) (*nativeResult, error) {
	ctx, cancel := context.WithTimeout(context.Background(), timeout)
	defer cancel()
	var as []string
	for _, a := range args {
		as = append(as, fmt.Sprint(a))
	}
	run := exec.CommandContext(ctx, bin, "-test.run", "^TestVerifReplay$", "-test.v")
	run.Dir = nb.tmp
	run.Env = append(nb.env(modelFile), "VERIF_ENTRY="+entry, "VERIF_ARGS="+strings.Join(as, ","))
	out, err := run.CombinedOutput()
	s := string(out)
	res := &nativeResult{out: s}
	if !strings.Contains(s, "REPLAY-DONE") {
		return res, fmt.Errorf("native replay did not complete: %v", err)
	}
	for _, l := range strings.Split(s, "\n") {
		switch {
		case strings.HasPrefix(l, "REPLAY-FAILED: "):
			res.failed = append(res.failed, strings.TrimPrefix(l, "REPLAY-FAILED: "))
		case strings.HasPrefix(l, "REPLAY-FINDING: "):
			res.findings = append(res.findings, strings.TrimPrefix(l, "REPLAY-FINDING: "))
		case strings.HasPrefix(l, "REPLAY-PANIC: "):
			res.panicked = strings.TrimPrefix(l, "REPLAY-PANIC: ")
		}
	}
	if strings.HasPrefix(res.panicked, "verifrt:") || strings.HasPrefix(res.panicked, "open ") {
		return res, fmt.Errorf("native replay infrastructure error: %s", res.panicked)
	}
	return res, nil
}

func (r *nativeResult) violated() bool { return len(r.failed) > 0 || r.panicked != "" }

func cmdReplay(argv []string) int {
	fs := flag.NewFlagSet("replay", flag.ExitOnError)
	prop := fs.String("property", "", "property id")
	model := fs.String("model", "", "replay file")
	fs.Parse(argv)
	path := *model
	if abs, err := filepath.Abs(path); err == nil {
		path = abs
	}
	b, err := os.ReadFile(path)
	if err != nil {
		fmt.Println(err)
		return 3
	}
	var rf replayFile
	if err := json.Unmarshal(b, &rf); err != nil {
		fmt.Println(err)
		return 3
	}
	if *prop == "" {
		*prop = rf.Property
	}
	var kf KnownFile
	if b, err := os.ReadFile(filepath.Join(verifDir, "known_findings.json")); err == nil {
		json.Unmarshal(b, &kf)
	}
	var known []string
	for _, f := range kf.Findings {
		known = append(known, f.ID)
	}
	sort.Strings(known)
	nb, err := newNativeBuilder(*prop, known)
	if err != nil {
		fmt.Println(err)
		return 3
	}
	defer nb.close()
	bin, err := nb.build(rf.Pkg, rf.PkgName, []entrySig{{rf.Entry, len(rf.Args)}})
	if err != nil {
		fmt.Println(err)
		return 3
	}
	res, err := nb.run(bin, rf.Entry, rf.Args, path, 5*time.Minute)
	for _, l := range strings.Split(res.out, "\n") {
		if strings.HasPrefix(l, "REPLAY-") {
			fmt.Println(l)
		}
	}
	if err != nil {
		fmt.Println("replay error:", err)
		return 3
	}
	if res.violated() {
		fmt.Printf("VIOLATION property=%s replay=%s\n", *prop, path)
		return 1
	}
	fmt.Println("not reproduced natively")
	return 0
}
