#!/usr/bin/env python3
# regenerates level_claimed.text and level_note of every check in MANIFEST.json from the harness specs and known_findings.json
import json,os
root=os.path.dirname(os.path.dirname(os.path.abspath(__file__)))
m=json.load(open(root+'/MANIFEST.json'))
kf=json.load(open(root+'/known_findings.json'))
for c in m['checks']:
    pid=c['property_id']
    spec=json.load(open('%s/harness/%s/spec.json'%(root,pid)))
    parts=[]
    outside=[]
    for h in spec['harnesses']:
        w=h['what'].strip()
        if len(w)>260: w=w[:257]+'...'
        parts.append('%s: %s'%(h['name'],w))
        for o in h.get('outside',[]):
            if o not in outside: outside.append(o)
    c['level_claimed']['text']=('bounded symbolic model checking of the real code (go/ssa interpreted with symbolic inputs, z3 decides every branch and assertion). '
        +'Harnesses — '+' | '.join(parts)+'. Holds for all values within the bounds listed in the evidence file; nothing is claimed outside them.')
    ids=[f['id'] for f in kf['findings'] if f['property']==pid]
    fixed=[f for f in kf.get('fixed',[]) if (f.get('property')==pid if isinstance(f,dict) else ('property=%s '%pid) in f)]
    tb=spec.get('trusted_base',[])
    note='trusted: '+'; '.join(tb if tb else ['go/ssa construction','gosmt interpreter + intrinsics (selftest, per-path native validation where the harness runs natively)','z3'])
    if outside: note+='. Outside the claim: '+'; '.join(outside)
    note+='. Known findings listed: '+(', '.join(ids) if ids else 'none')
    note+='; defects repaired by fix: commits: %d'%len(fixed)
    c['level_note']=note
json.dump(m,open(root+'/MANIFEST.json','w'),indent=1)
