#!/usr/bin/env python3
# prints the per-harness table of DESIGN.md section 4.0 from the harness specs
import json,glob,os
print("| property | harness | entry (package) | what is encoded | quick instances | thorough instances | native replay |")
print("|---|---|---|---|---|---|---|")
for f in sorted(glob.glob('/verif/harness/C*/spec.json')):
    sp=json.load(open(f))
    for h in sp['harnesses']:
        q=h.get('quick') or [[]]; t=h.get('thorough') or q
        def rng(xs):
            if len(xs)<=4: return ' '.join(str(x).replace(' ','') for x in xs)
            return '%d instances %s..%s'%(len(xs),str(xs[0]).replace(' ',''),str(xs[-1]).replace(' ',''))
        nat='yes' if h.get('native_replay',True) else 'no (engine stubs)'
        print("| %s | %s | `%s` (%s) | %s; args: %s | %s | %s | %s |"%(sp['property'],h['name'],h['entry'],h['pkg'].replace('github.com/mimecast/dtail/',''),h.get('what',''),', '.join(h.get('arg_names',[])) or '-',rng(q),rng(t),nat))
