#!/usr/bin/env python3
# Regenerates the generated parts of DESIGN.md (between <!-- gen:NAME --> and <!-- /gen:NAME --> markers)
# from harness specs, known_findings.json and seeded/*/meta.json.
import json,glob,os,re
V='/verif'
def esc(s): return str(s).replace('|','¦').replace('\n',' ')
def table40():
    out=["| property | harness | entry (package) | what is encoded (arguments) | quick instances | thorough instances | native replay |","|---|---|---|---|---|---|---|"]
    for f in sorted(glob.glob(V+'/harness/C*/spec.json')):
        sp=json.load(open(f))
        for h in sp['harnesses']:
            q=h.get('quick') or [[]]; t=h.get('thorough') or q
            def rng(xs):
                if len(xs)<=3: return ' '.join(str(x).replace(' ','') for x in xs)
                return '%d: %s … %s'%(len(xs),str(xs[0]).replace(' ',''),str(xs[-1]).replace(' ',''))
            nat='yes' if h.get('native_replay',True) else 'no (depends on engine stubs)'
            if h.get('native_tries'): nat+=', stress x%d'%h['native_tries']
            out.append("| %s | %s | `%s` (%s) | %s (%s) | %s | %s | %s |"%(sp['property'],h['name'],h['entry'],h['pkg'].replace('github.com/mimecast/dtail/',''),esc(h.get('what','')),esc(', '.join(h.get('arg_names',[])) or '-'),rng(q),rng(t),nat))
    return '\n'.join(out)
def findings():
    k=json.load(open(V+'/known_findings.json'))
    out=["**Repaired (`fixed:` entries of known_findings.json), one `fix:` commit each in /repo:**","","| property | commit | what failed |","|---|---|---|"]
    for f in k['fixed']:
        parts=f.split(' ',3)
        out.append("| %s | `%s` | %s |"%(parts[1].replace('property=',''),parts[2],esc(parts[3])))
    out+=["","**Recorded as known findings (printed as KNOWN-FINDING lines, exit 0):**","","| id | what | identified by |","|---|---|---|"]
    for f in k['findings']:
        out.append("| %s | %s | %s |"%(f['id'],esc(f['what']),esc(f['identified_by'])))
    return '\n'.join(out)
def seeded():
    out=["| seeded change | property | what it changes | what it needs to manifest | result of our checks |","|---|---|---|---|---|"]
    for d in sorted(glob.glob(V+'/seeded/*')):
        try: m=json.load(open(d+'/meta.json'))
        except Exception: continue
        out.append("| seeded/%s | %s | %s | %s | %s |"%(os.path.basename(d),m.get('property',''),esc(m.get('summary','')),esc(m.get('needs','')),esc(m.get('confirmed_by_us',''))))
    return '\n'.join(out)
gens={'table40':table40,'findings':findings,'seeded':seeded}
s=open(V+'/DESIGN.md').read()
for name,fn in gens.items():
    pat=re.compile(r'<!-- gen:%s -->.*?<!-- /gen:%s -->'%(name,name),re.S)
    if pat.search(s):
        s=pat.sub(lambda m:'<!-- gen:%s -->\n%s\n<!-- /gen:%s -->'%(name,fn(),name),s)
    else:
        print('marker missing:',name)
open(V+'/DESIGN.md','w').write(s)
