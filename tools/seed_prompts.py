#!/usr/bin/env python3
# usage: seed_prompts.py <round suffix e.g. r4> <property ids...>  -- prepares /tmp/seed/<id>-<suffix>/prompt.txt and a scratch worktree
import json,os,subprocess,sys,glob
suffix=sys.argv[1]
props={json.loads(l)['id']:json.loads(l) for l in open('/verif/properties.jsonl')}
for pid in sys.argv[2:]:
    sid=pid+'-'+suffix
    p=props[pid]
    d='/tmp/seed/'+sid; os.makedirs(d,exist_ok=True)
    wt='/tmp/wt-'+sid
    if not os.path.exists(wt):
        subprocess.check_call(['git','-C','/repo','worktree','add','--detach',wt,'HEAD'],stdout=subprocess.DEVNULL,stderr=subprocess.DEVNULL)
    prevs=[]
    for m in sorted(glob.glob('/verif/seeded/%s*/meta.json'%pid)):
        mm=json.load(open(m))
        prevs.append('- (%s) %s'%(', '.join(mm.get('files',[])), mm['summary']))
    text="Property %s: %s. %s It must hold over: %s"%(pid,p['title'],p['statement'],p['quantifier']['text'])
    open(d+'/property.txt','w').write(text+"\n")
    files=', '.join(p['anchors']['files'])
    pr=f'''You are helping test a verification framework by writing a realistic *bug-introducing* change to a Go project (mimecast/dtail: a CLI/server pair for tailing, grepping and catting logs across hosts over SSH, with a small SQL-like mapreduce query language and a "serverless" mode where client and server code run in one process).

Your own scratch git worktree of the project is at {wt} (work ONLY there; do not touch /repo or /verif, and do not read anything under /verif or /tmp/seed/* other than your own directory {d}). IMPORTANT: several git worktrees share one repository, so NEVER use `git stash` (the stash is shared); to test the unchanged tree use `git -C {wt} apply -R <your patch>` and re-apply it afterwards, or a `git archive HEAD` copy. Never use pkill/killall. Build/test offline with: `cd {wt} && export GOFLAGS=-mod=mod GOPROXY=off && go build ./... && go test -vet=off -count=1 ./...` (the existing suite must still pass with your change). When you run dtail binaries, ALWAYS give them `</dev/null` as stdin and wrap them in `timeout 60`, otherwise serverless clients read stdin and hang.

The property to break (text also in {d}/property.txt):

{text}

Task: make ONE small, realistic source change (the kind of slip a developer could make in a refactoring, a feature addition or an "optimisation") to the non-test Go code under {wt} that BREAKS this property while the project still compiles and the existing test suite still passes. The breakage must need something specific to manifest (an unusual input, a particular configuration or combination of options, a multi-step sequence, a particular interleaving or timing, or two cooperating sites that each look fine alone) — NOT something ordinary use would expose at once. The breakage must be reachable with inputs, command lines, configurations and protocol messages that are already valid for the unchanged tree: do not make it depend on a new configuration key, flag or command that only exists with your change.

Earlier changes for this property already exist; yours must be in a DIFFERENT place (a different function, preferably a different file) and of a different kind than each of them:
{chr(10).join(prevs)}
Code the property depends on includes: {files} — and everything those files call or are called from (command line parsing in cmd/, configuration in internal/config, the connectors, handlers and helpers in between). Prefer a site none of the earlier changes touched, including wiring code that decides which component, option or value is handed to which.

Deliver, under {d}/:
 1. `patch.diff` — `git -C {wt} diff` of your change (source change only, no test files).
 2. a demonstration: a Go test file (say exactly where it must be placed in the tree and how to run it; keep a copy in {d}/) or a shell script using the real binaries, that FAILS with your change applied and PASSES on the unchanged tree. Verify both directions yourself. In tests, logging (internal/io/dlog) must be usable: `dlog.Common = &dlog.DLog{{}}` (and dlog.Server / dlog.Client likewise) gives silent loggers; config.Server / config.Client / config.Common must be set where the code reads them.
 3. `meta.json` with keys: "property" ("{pid}"), "summary" (one or two sentences on the change), "needs" (what specific input/sequence/timing is needed for the bug to manifest), "demo" (exact commands you ran and their outcome with and without the change, and where the test file goes; if it is a Go test give "demo_file", "demo_dir" (package directory relative to the tree) and "demo_run" (the -run pattern) as separate keys too), "files" (files touched).
Leave the worktree with your change applied (uncommitted) and without the demo test file when you finish. Report back a short summary.'''
    open(d+'/prompt.txt','w').write(pr)
    print(sid)
