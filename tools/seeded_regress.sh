#!/bin/bash
# applies every seeded change to /repo in turn, runs the quick check of its property, reverts; prints caught / MISSED
cd /verif
for d in seeded/*/; do
  id=$(basename "$d"); prop=$(python3 -c "import json;print(json.load(open('$d/meta.json')).get('property','${id%%-*}'))")
  out=$(/verif/seedtest.sh "/verif/seeded/$id/patch.diff" "$prop" quick 2>&1)
  miss=$(python3 -c "import json;print(json.load(open('$d/meta.json')).get('documented_miss',''))")
  if echo "$out" | grep -q "exit=1"; then echo "$id ($prop): caught"; elif [ -n "$miss" ]; then echo "$id ($prop): documented miss ($miss)"; else echo "$id ($prop): MISSED"; echo "$out" | tail -3; fi
done
