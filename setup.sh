#!/bin/bash
# Builds the engine offline from the module cache.
set -e
HERE="$(dirname "$(readlink -f "$0")")"
export VERIF_DIR="$HERE"
cd "$HERE/engine"
export GOFLAGS=-mod=mod GOPROXY=off GOSUMDB=off GOTOOLCHAIN=local
mkdir -p "$HERE/bin" "$HERE/evidence"
go build -o "$HERE/bin/gosmt" ./cmd/gosmt
cd "$HERE" && ./bin/gosmt selftest
