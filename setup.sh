#!/bin/bash
# Builds the engine offline from the module cache.
set -e
cd /verif/engine
export GOFLAGS=-mod=mod GOPROXY=off GOSUMDB=off GOTOOLCHAIN=local
mkdir -p /verif/bin /verif/evidence
go build -o /verif/bin/gosmt ./cmd/gosmt
cd /verif && ./bin/gosmt selftest
