#!/bin/bash
# usage: seeddemo.sh <id> <testfile> <destdir> <runpattern> -- run a seeded change's demo test with and without the change in its scratch worktree
id="$1"; tf="$2"; dd="$3"; pat="$4"
wt="/tmp/wt-${id:?}"
[ -d "$wt" ] || { echo "no worktree $wt"; exit 2; }
cp "/tmp/seed/$id/$tf" "$wt/$dd/$tf" || exit 2
cd "$wt" || exit 2
export GOFLAGS=-mod=mod GOPROXY=off
a=$(go test -vet=off -count=1 -run "$pat" "./$dd/" 2>&1 | tail -1)
git apply -R "/tmp/seed/$id/patch.diff" || { echo "cannot revert patch"; exit 2; }
b=$(go test -vet=off -count=1 -run "$pat" "./$dd/" 2>&1 | tail -1)
git apply "/tmp/seed/$id/patch.diff"
git clean -fdq -- "$dd/$tf"
echo "$id demo: with change: [$a]  without: [$b]"
