#!/bin/bash
# usage: seedkeep.sh <id> <caught-by text>  -- copy a confirmed seeded change into /verif/seeded/<id>/ and drop its worktree
id="$1"; shift
mkdir -p /verif/seeded/$id
cp /tmp/seed/$id/* /verif/seeded/$id/ 2>/dev/null
rm -f /verif/seeded/$id/property.txt
python3 - "$id" "$*" <<'PY'
import json,sys
id,note=sys.argv[1],sys.argv[2]
p='/verif/seeded/%s/meta.json'%id
try: m=json.load(open(p))
except Exception: m={}
m['confirmed_by_us']=note
json.dump(m,open(p,'w'),indent=1)
PY
git -C /repo worktree remove --force /tmp/wt-$id 2>/dev/null
ls /verif/seeded/$id
