#!/bin/bash
# usage: seedtest.sh <patch.diff> <property> [tier]  -- applies a seeded change to /repo, runs the suite and the check, reverts.
patch="$1"; prop="$2"; tier="${3:-quick}"
cd /repo || exit 2
if [ -n "$(git status --porcelain)" ]; then echo "/repo not clean"; exit 2; fi
git apply "$patch" || { echo "patch does not apply"; exit 2; }
export GOFLAGS=-mod=mod GOPROXY=off
bfail=$(go build ./... 2>&1 | head -3)
tfail=$(go test -vet=off -count=1 ./... 2>&1 | grep -v "no test files" | grep -v "^ok" | head -5)
echo "build: ${bfail:-ok}  suite: ${tfail:-pass}"
cd /verif && ./check "$prop" "$tier" > /tmp/seedtest-$prop.log 2>&1; rc=$?
grep -m3 "VIOLATION\|INCONCLUSIVE\|HARNESS-STALE" /tmp/seedtest-$prop.log
grep -m2 "counterexample\|reproduced" /tmp/seedtest-$prop.log | cut -c1-220
echo "check $prop $tier exit=$rc"
git -C /repo checkout -- . ; git -C /repo status --porcelain | head -3
