#!/bin/bash
# usage: seedtest.sh <patch.diff> <property> [tier]  -- applies a seeded change to a scratch worktree of /repo
# (never to /repo itself), runs the unedited suite there and the check against it (VERIF_REPO), removes the worktree.
patch="$(readlink -f "$1")"; prop="$2"; tier="${3:-quick}"
wt=$(mktemp -d /tmp/seedtest-XXXXXX); rmdir "$wt"
git -C /repo worktree add --detach "$wt" HEAD >/dev/null 2>&1 || { echo "cannot create worktree"; exit 2; }
trap 'git -C /repo worktree remove --force "$wt" >/dev/null 2>&1; rm -rf "$wt"' EXIT
cd "$wt" || exit 2
git apply "$patch" || { echo "patch does not apply"; exit 2; }
export GOFLAGS=-mod=mod GOPROXY=off
bfail=$(go build ./... 2>&1 | head -3)
tfail=$(go test -vet=off -count=1 ./... 2>&1 | grep -v "no test files" | grep -v "^ok" | head -5)
echo "build: ${bfail:-ok}  suite: ${tfail:-pass}"
log=$(mktemp /tmp/seedtest-log-XXXXXX)
cd /verif && VERIF_REPO="$wt" ./check "$prop" "$tier" > "$log" 2>&1; rc=$?
grep -a -m3 "VIOLATION\|INCONCLUSIVE\|HARNESS-STALE" "$log"
grep -a -m2 "counterexample\|reproduced" "$log" | cut -c1-220
echo "check $prop $tier exit=$rc"
rm -f "$log"
