//verif:dest internal/server/handlers/zz_verif_c06g.go
//verif:replace@C06g path/filepath.Glob = c06gGlob
//verif:replace@C06g (*github.com/mimecast/dtail/internal/user/server.User).HasFilePermission = c06gPerm

package handlers

import (
	"encoding/base64"
	"strings"
	"time"

	"github.com/mimecast/dtail/internal/config"
	"github.com/mimecast/dtail/internal/io/dlog"
	"github.com/mimecast/dtail/internal/io/fs"
	"github.com/mimecast/dtail/internal/source"
	user "github.com/mimecast/dtail/internal/user/server"
	"github.com/mimecast/dtail/internal/verifrt"
)

func c06gGlob(pattern string) ([]string, error) {
	if _, ok := fs.VerifFiles[pattern]; ok {
		return []string{pattern}, nil
	}
	return nil, nil
}
func c06gPerm(u *user.User, filePath, permissionType string) bool { return true }

// VerifC06gCoalesced: the map command and the read command of a mapreduce
// session reach the server in one transport read (as a busy SSH channel
// delivers them), for one file of n lines: whatever the order in which the two
// command goroutines get to run, every line of the file is counted in the
// aggregate the server sends, none is sent as a plain line, and the session
// shuts itself down.
func VerifC06gCoalesced(n int) {
	dlog.VerifInstall(source.Server)
	config.Server.MapreduceLogFormat = "generickv"
	config.Server.Permissions = config.Permissions{Default: []string{"^/.*$"}}
	fs.VerifFiles = nil
	var content []byte
	for i := 0; i < n; i++ {
		content = append(content, "g=k|x=1\n"...)
	}
	path := fs.VerifProvideNamed("/f0", content)
	h := VerifNewServerHandler(false, true, false, 2, 2)
	frame := func(cmd string) string {
		return "protocol 4.1 base64 " + base64.StdEncoding.EncodeToString([]byte(cmd)) + ";"
	}
	wire := frame("map select count(x),g from T group by g interval 1 logformat generickv") +
		frame("cat:quiet=true "+path+" regex:default .")
	h.Write([]byte(wire))

	var out []byte
	done := make(chan struct{})
	go func() {
		p := make([]byte, 4096)
		for {
			k, err := h.Read(p)
			out = append(out, p[:k]...)
			if err != nil || strings.Contains(string(out), ".syn close connection") {
				close(done)
				return
			}
		}
	}()
	ended := false
	select {
	case <-done:
		ended = true
	case <-time.After(2 * time.Minute):
	}
	counted, raw := 0, 0
	for _, m := range strings.Split(string(out), "\xac") {
		if strings.HasPrefix(m, "AGGREGATE|") {
			parts := strings.Split(m, "∥")
			if len(parts) >= 2 {
				k := 0
				for _, c := range parts[1] {
					k = k*10 + int(c-'0')
				}
				counted += k
			}
		}
		if strings.HasPrefix(m, "REMOTE|") {
			raw++
		}
	}
	verifrt.Assert(raw == 0, "lines of a mapreduce session were sent as plain lines instead of being aggregated")
	verifrt.Assert(counted == n, "the aggregate the server sent does not account for every line of the file")
	verifrt.Assert(ended, "the session did not shut itself down")
	verifrt.Reach("counted")
}
