//verif:dest internal/mapr/client/zz_verif_c06h.go

package client

import (
	"context"

	"github.com/mimecast/dtail/internal/io/dlog"
	"github.com/mimecast/dtail/internal/mapr"
	"github.com/mimecast/dtail/internal/source"
	"github.com/mimecast/dtail/internal/verifrt"
)

var c06hCounts = []float64{1, 17, 999999, 1000000, 1050600, 123456789, 1e15, 4e21}

// c06hPick forks on the choice so that the value is concrete on every path
func c06hPick(i int) float64 {
	for j, v := range c06hCounts {
		if i == j {
			return v
		}
	}
	return 1
}

// VerifC06hLargeFiles: a server's partial result for a large file (counts and
// sums from 1 to beyond a million, where the serialised number switches to
// exponent notation) goes through the real AggregateSet.Serialize, the client
// Aggregate (makeFields, AggregateSet.Aggregate) and the merge into the global
// result: the lines of the file are all accounted for.
func VerifC06hLargeFiles() {
	dlog.VerifInstall(source.Client)
	q, err := mapr.NewQuery("select count(x),sum(x),min(x),max(x),avg(x) group by g")
	verifrt.Assert(err == nil, "query")
	n := c06hPick(verifrt.Choose("lines-in-the-file", len(c06hCounts)))
	m := c06hPick(verifrt.Choose("lines-in-a-second-file", len(c06hCounts)))
	global := mapr.NewGlobalGroupSet()
	agg := NewAggregate("srv", q, global)
	for _, lines := range []float64{n, m} {
		server := mapr.NewGroupSet()
		set := server.GetSet("k")
		set.Samples = 3 // (the number of samples is not the subject here)
		set.FValues["count(x)"] = lines
		set.FValues["sum(x)"] = lines * 2
		set.FValues["min(x)"] = 2
		set.FValues["max(x)"] = 2
		set.FValues["avg(x)"] = lines * 2
		ch := make(chan string, 2)
		server.Serialize(context.Background(), ch)
		verifrt.Assert(len(ch) == 1, "one serialised record per group expected")
		err := agg.Aggregate(<-ch)
		verifrt.Assert(err == nil, "the client cannot take in a partial result of a large file")
	}
	got, ok := global.VerifSets()["k"]
	verifrt.Assert(ok, "the group is missing from the merged result")
	verifrt.Assert(got.FValues["count(x)"] == n+m, "lines of a file are missing from the merged count")
	verifrt.Assert(got.FValues["sum(x)"] == (n+m)*2, "lines of a file are missing from the merged sum")
	verifrt.Assert(got.FValues["min(x)"] == 2 && got.FValues["max(x)"] == 2, "min/max differ")
	verifrt.Reach("accounted")
}
