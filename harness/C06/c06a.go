//verif:dest internal/mapr/server/zz_verif_c06a.go

package server

import (
	"github.com/mimecast/dtail/internal/io/dlog"
	"github.com/mimecast/dtail/internal/io/line"
	"github.com/mimecast/dtail/internal/source"
	"github.com/mimecast/dtail/internal/verifrt"
)

// VerifC06aNextLine: one step of the server side aggregator from the state
// "the current file's channel is closed and drained": it may declare the end
// of input only if no other file read is pending. A read queued behind the
// cat limiter registers its channel only after it got a slot, so "pending but
// not yet registered" is a reachable state (the harness knows it, the
// aggregator cannot).
func VerifC06aNextLine() {
	dlog.VerifInstall(source.Server)
	a, err := NewAggregate("select count(x) group by g logformat generickv")
	verifrt.Assert(err == nil, "NewAggregate")
	cur := make(chan *line.Line, 1)
	close(cur)
	a.linesCh = cur
	queued := verifrt.Bool("another-read-is-queued-behind-the-limiter")
	registered := verifrt.Bool("another-read-has-registered")
	if registered {
		a.NextLinesCh <- make(chan *line.Line, 1)
	}
	_, ok, noMore := a.nextLine()
	verifrt.Assert(!ok, "a closed channel delivered a line")
	if registered {
		verifrt.Assert(!noMore, "the aggregator ended although another file had registered")
		verifrt.Reach("next-file-taken")
		return
	}
	if queued {
		// known: the aggregator ends while a file read is still waiting for a limiter slot
		verifrt.Finding("C06-KF1", noMore)
		return
	}
	verifrt.Assert(noMore, "the aggregator does not end although no file is left")
	verifrt.Reach("ends-when-done")
}
