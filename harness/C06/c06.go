//verif:dest internal/clients/zz_verif_c06.go
//verif:replace@C06 os.Stat = c06Stat
//verif:replace@C06 math/rand.New = c06RandNew
//verif:replace@C06 math/rand.NewSource = c06RandSource
//verif:replace@C06 (*math/rand.Rand).Intn = c06Intn
//verif:replace@C06 path/filepath.Glob = c06Glob
//verif:replace@C06 (*github.com/mimecast/dtail/internal/user/server.User).HasFilePermission = c06Perm

package clients

import (
	"context"
	"errors"
	"math/rand"
	"os"
	"strings"
	"time"

	"github.com/mimecast/dtail/internal/config"
	"github.com/mimecast/dtail/internal/io/dlog"
	"github.com/mimecast/dtail/internal/io/fs"
	"github.com/mimecast/dtail/internal/omode"
	"github.com/mimecast/dtail/internal/source"
	user "github.com/mimecast/dtail/internal/user/server"
	"github.com/mimecast/dtail/internal/verifrt"
)

func c06Stat(name string) (os.FileInfo, error) { return nil, errors.New("no such file") }
func c06RandNew(src rand.Source) *rand.Rand    { return new(rand.Rand) }
func c06RandSource(seed int64) rand.Source     { return nil }
func c06Intn(r *rand.Rand, n int) int          { return 0 }
func c06Glob(pattern string) ([]string, error) {
	if _, ok := fs.VerifFiles[pattern]; ok {
		return []string{pattern}, nil
	}
	return nil, nil
}
func c06Perm(u *user.User, filePath, permissionType string) bool { return true }

// VerifC06Session: a whole serverless mapreduce run in process over nfiles
// files of nlines lines behind a cat limiter of the given capacity: the final
// result must count every line of every file exactly once, and the run ends.
var c06Pace time.Duration
var c06ByLine bool

// VerifC06LineKeySession: the same run grouped by $line: the group keys contain
// the protocol's field delimiter '|' (they are whole log lines), as they do for
// "group by $line" over any of dtail's own log files.
func VerifC06LineKeySession(nfiles, nlines, cats int) {
	c06ByLine = true
	VerifC06Session(nfiles, nlines, cats)
}

// VerifC06SlowSession: the same run with files that are read slowly (700 ms per
// line), so that the server side aggregation spans several of its 1 s
// serialisation intervals.
func VerifC06SlowSession(nfiles, nlines, cats int) {
	c06Pace = 700 * time.Millisecond
	VerifC06Session(nfiles, nlines, cats)
}

func VerifC06Session(nfiles, nlines, cats int) {
	pace := c06Pace
	c06Pace = 0
	byLine := c06ByLine
	c06ByLine = false
	lg := dlog.VerifInstall(source.Client)
	_ = lg
	config.Server.MaxConcurrentCats = cats
	config.Server.MapreduceLogFormat = "generickv"
	config.Server.Permissions = config.Permissions{Default: []string{"^/.*$"}}
	fs.VerifFiles = nil
	var files []string
	for f := 0; f < nfiles; f++ {
		var content []byte
		for i := 0; i < nlines; i++ {
			content = append(content, ("g=k" + string(rune('0'+f)) + "|x=1\n")...)
		}
		files = append(files, fs.VerifProvideNamed("/f"+string(rune('0'+f)), content))
		if pace > 0 {
			var chunks []int
			for i := 0; i < nlines; i++ {
				chunks = append(chunks, len(content)/nlines)
			}
			fs.VerifFiles["/f"+string(rune('0'+f))].Chunks = chunks
			fs.VerifFiles["/f"+string(rune('0'+f))].Pace = pace
		}
	}
	var args config.Args
	args.QueryStr = "select count(x),g group by g interval 1 logformat generickv"
	if byLine {
		args.QueryStr = "select count(x),g group by $line interval 1 logformat generickv"
	}
	args.What = strings.Join(files, ",")
	args.Serverless = true
	args.UserName = "u"
	args.Mode = omode.MapClient
	args.ConnectionsPerCPU = 1
	args.Quiet = true
	c, err := NewMaprClient(args, CumulativeMode)
	verifrt.Assert(err == nil && c != nil, "NewMaprClient failed")

	ctx, cancel := context.WithCancel(context.Background())
	done := make(chan struct{})
	go func() {
		c.Start(ctx, nil)
		close(done)
	}()
	ended := false
	select {
	case <-done:
		ended = true
	case <-time.After(10 * time.Minute):
	}
	cancel()
	verifrt.Assert(ended, "the mapreduce run did not terminate")

	total := 0
	perFile := map[string]int{}
	for key, set := range c.globalGroup.VerifSets() {
		n := int(set.FValues["count(x)"])
		perFile[key] = n
		total += n
	}
	want := nfiles * nlines
	if total != want {
		// known: (a) the server side aggregator stops at the first moment no further file is
		// registered although reads are still queued behind the limiter; (b) a per-server
		// result that could not be merged at once is never merged before the final report
		verifrt.Assert(total <= want, "lines are counted more than once in the final result")
		// (with a single file neither known finding applies: there is no other file that could
		// still be unregistered and no other server whose merge could be in flight)
		verifrt.Assert(nfiles > 1, "lines of the only file of the run are missing from the final result")
		verifrt.Finding("C06-KF1", total < want)
		verifrt.Reach("lines-missing")
		return
	}
	for f := 0; f < nfiles; f++ {
		key := "k" + string(rune('0'+f))
		if byLine {
			key = "g=k" + string(rune('0'+f)) + "|x=1"
		}
		verifrt.Assert(perFile[key] == nlines, "a file's lines are not all in the final result")
	}
	verifrt.Reach("all-counted")
}
