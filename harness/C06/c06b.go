//verif:dest internal/mapr/client/zz_verif_c06b.go

package client

import (
	"github.com/mimecast/dtail/internal/io/dlog"
	"github.com/mimecast/dtail/internal/mapr"
	"github.com/mimecast/dtail/internal/source"
	"github.com/mimecast/dtail/internal/verifrt"
)

// VerifC06bMerge: k partial results of one server arrive at the client; for
// each, another server's merge may be in flight at that moment (symbolic bit:
// the global set's semaphore is taken). Then the final result is taken, as
// reportResults(true) does. Every message must be counted.
func VerifC06bMerge(k int) {
	dlog.VerifInstall(source.Client)
	q, err := mapr.NewQuery("select count(x) group by g")
	verifrt.Assert(err == nil, "query")
	global := mapr.NewGlobalGroupSet()
	agg := NewAggregate("srv", q, global)
	keys := []string{"k1", "k2", "k3"}
	var sent []int
	lastMerged := -1 // index of the last message whose merge went through
	for i := 0; i < k; i++ {
		key := verifrt.Choose("group", len(keys))
		sent = append(sent, key)
		inFlight := verifrt.Bool("another-merge-in-flight")
		if inFlight {
			global.VerifTakeSemaphore()
		}
		err := agg.Aggregate(keys[key] + "∥1∥count(x)≔1∥")
		verifrt.Assert(err == nil, "Aggregate failed")
		if inFlight {
			global.VerifReleaseSemaphore()
		} else {
			lastMerged = i
		}
	}
	got := make([]int, len(keys))
	for j, key := range keys {
		if set, ok := global.VerifSets()[key]; ok {
			got[j] = int(set.FValues["count(x)"])
		}
	}
	// every message up to the last successful merge is in the global result exactly once
	want := make([]int, len(keys))
	for i := 0; i <= lastMerged; i++ {
		want[sent[i]]++
	}
	for j := range keys {
		verifrt.Assert(got[j] == want[j], "a partial result is counted more than once, or lost although a later merge went through")
	}
	if lastMerged != k-1 {
		// known: a result that MergeNoblock could not merge stays in the per-server group and
		// is only merged by the next message; after the last message nothing merges it
		verifrt.Finding("C06-KF2", true)
		return
	}
	verifrt.Reach("all-merged")
}
