//verif:dest internal/mapr/client/zz_verif_c06b.go

package client

import (
	"github.com/mimecast/dtail/internal/io/dlog"
	"github.com/mimecast/dtail/internal/mapr"
	"github.com/mimecast/dtail/internal/source"
	"github.com/mimecast/dtail/internal/verifrt"
)

// VerifC06bMerge: k partial results of one server arrive at the client; for
// each, another server's merge may be in flight at that moment (symbolic bit:
// the global set's semaphore is taken). Then the final result is taken, as
// reportResults(true) does. Every message must be counted.
func VerifC06bMerge(k int) {
	dlog.VerifInstall(source.Client)
	q, err := mapr.NewQuery("select count(x) group by g")
	verifrt.Assert(err == nil, "query")
	global := mapr.NewGlobalGroupSet()
	agg := NewAggregate("srv", q, global)
	lastFailed := false
	for i := 0; i < k; i++ {
		inFlight := verifrt.Bool("another-merge-in-flight")
		if inFlight {
			global.VerifTakeSemaphore()
		}
		err := agg.Aggregate("k∥1∥count(x)≔1∥")
		verifrt.Assert(err == nil, "Aggregate failed")
		if inFlight {
			global.VerifReleaseSemaphore()
		}
		lastFailed = inFlight
	}
	total := 0
	if set, ok := global.VerifSets()["k"]; ok {
		total = int(set.FValues["count(x)"])
	}
	if total != k {
		// known: a result that MergeNoblock could not merge stays in the per-server group and
		// is only merged by the next message; after the last message nothing merges it
		verifrt.Finding("C06-KF2", lastFailed && total < k)
		return
	}
	verifrt.Reach("all-merged")
}
