//verif:dest internal/mapr/server/zz_verif_c06d.go

package server

import (
	"bytes"
	"time"

	"github.com/mimecast/dtail/internal/io/dlog"
	"github.com/mimecast/dtail/internal/io/line"
	"github.com/mimecast/dtail/internal/source"
	"github.com/mimecast/dtail/internal/verifrt"
)

// VerifC06dSwitch: one nextLine step from every state of (current file's
// channel: has a line / open and empty / closed and drained) x (another file
// has registered or not): afterwards every file that is not finished is still
// tracked exactly once (as the current channel or in the queue), and a line
// that was ready is delivered.
func VerifC06dSwitch() {
	dlog.VerifInstall(source.Server)
	a, err := NewAggregate("select count(x) group by g logformat generickv")
	verifrt.Assert(err == nil, "NewAggregate")
	cur := make(chan *line.Line, 4)
	state := verifrt.Choose("current-channel", 3) // 0 has a line, 1 open+empty, 2 closed+drained
	if state == 0 {
		cur <- &line.Line{Content: bytes.NewBufferString("g=a|x=1"), Count: 1, TransmittedPerc: 100, SourceID: "f"}
	}
	if state == 2 {
		close(cur)
	}
	a.linesCh = cur
	var other chan *line.Line
	if verifrt.Bool("another-file-registered") {
		other = make(chan *line.Line, 4)
		a.NextLinesCh <- other
	}
	l, ok, noMore := a.nextLine()
	verifrt.Sleep(10 * time.Millisecond) // let the re-queue goroutine run
	if state == 0 {
		verifrt.Assert(ok && l != nil && !noMore, "a line that was ready was not delivered")
	} else {
		verifrt.Assert(!ok, "a line was invented")
	}
	// which channels are tracked now?
	tracked := map[chan *line.Line]int{}
	tracked[a.linesCh]++
	for len(a.NextLinesCh) > 0 {
		tracked[<-a.NextLinesCh]++
	}
	if state != 2 {
		verifrt.Assert(tracked[cur] == 1, "the current file's channel is no longer tracked exactly once: its remaining lines are lost or read twice")
	}
	if other != nil {
		verifrt.Assert(tracked[other] == 1, "a registered file's channel is not tracked exactly once")
		verifrt.Assert(!noMore, "the aggregator ended although another file had registered")
	}
	if state == 1 && other != nil {
		verifrt.Assert(a.linesCh == other, "the aggregator did not switch to the file that has registered")
		verifrt.Reach("switched")
	}
	verifrt.Reach("checked")
}
