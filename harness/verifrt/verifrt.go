//verif:dest internal/verifrt/verifrt.go

// Package verifrt is the harness runtime. Under gosmt every function here is
// intercepted by the engine (nondet values become SMT constants, Assert asks
// the solver). Compiled natively (go test -overlay) the same functions read
// their values from the model file named by VERIF_MODEL, so that a solver
// counterexample can be replayed against the real build.
package verifrt

import (
	"encoding/json"
	"fmt"
	"os"
	"strings"
	"time"
)

var model map[string]uint64
var counters = map[string]int{}
var loaded bool

// Failures collects failed assertions in native replay.
var Failures []string
var Findings []string
var Observed []string

func load() {
	if loaded {
		return
	}
	loaded = true
	model = map[string]uint64{}
	f := os.Getenv("VERIF_MODEL")
	if f == "" {
		return
	}
	b, err := os.ReadFile(f)
	if err != nil {
		panic(err)
	}
	var rep struct {
		Model map[string]uint64 `json:"model"`
	}
	if err := json.Unmarshal(b, &rep); err != nil {
		panic(err)
	}
	model = rep.Model
}

// Reset forgets name counters (call at the start of a native replay).
func Reset() { counters = map[string]int{}; Failures = nil; Findings = nil; Observed = nil }

func val(name string) uint64 {
	load()
	n := counters[name]
	counters[name] = n + 1
	full := name
	if n > 0 {
		full = fmt.Sprintf("%s#%d", name, n)
	}
	full = strings.NewReplacer("|", "_", "\\", "_").Replace(full)
	return model[full]
}

func Byte(name string) byte     { return byte(val(name)) }
func Bool(name string) bool     { return val(name) != 0 }
func Int(name string) int       { return int(val(name)) }
func Uint64(name string) uint64 { return val(name) }
func Int32(name string) int32   { return int32(val(name)) }
func Float(name string) float64 { return float64FromBits(val(name)) }
func IntRange(name string, lo, hi int) int {
	v := int(val(name))
	if v < lo || v > hi {
		panic("verifrt: model value out of range for " + name)
	}
	return v
}
func Bytes(name string, n int) []byte {
	b := make([]byte, n)
	for i := range b {
		b[i] = byte(val(fmt.Sprintf("%s[%d]", name, i)))
	}
	return b
}
func String(name string, n int) string { return string(Bytes(name, n)) }

// ByteIn / StringIn: arbitrary bytes drawn from the given set.
func ByteIn(name string, set string) byte {
	b := byte(val(name))
	if !strings.Contains(set, string([]byte{b})) {
		panic("verifrt: model value outside the declared set for " + name)
	}
	return b
}
func StringIn(name string, n int, set string) string {
	b := Bytes(name, n)
	for _, c := range b {
		if !strings.Contains(set, string([]byte{c})) {
			panic("verifrt: model value outside the declared set for " + name)
		}
	}
	return string(b)
}

// Choose forks over 0..n-1 (natively: the recorded choice).
func Choose(name string, n int) int {
	load()
	k := "choose:" + name
	c := counters[k]
	counters[k] = c + 1
	if c > 0 {
		k = fmt.Sprintf("%s#%d", k, c)
	}
	return int(model[k])
}
func Concretize(v int) int { return v }
func Assume(c bool) {
	if !c {
		panic("verifrt: assumption violated by the replayed model")
	}
}
func Assert(c bool, what string) {
	if !c {
		Failures = append(Failures, what)
	}
}
func Reach(label string) {}
func Known(id string) bool { return os.Getenv("VERIF_KNOWN_"+strings.ReplaceAll(id, "-", "_")) != "" }
func Finding(id string, c bool) {
	Findings = append(Findings, id)
	if !Known(id) {
		Failures = append(Failures, "behaviour of finding "+id+" observed, but "+id+" is not listed as a known finding")
		return
	}
	if !c {
		Failures = append(Failures, "behaviour differs from known finding "+id)
	}
}
func KnownPanic(id string, substr ...string) {}
func Observe(vals ...interface{})           { Observed = append(Observed, fmt.Sprint(vals...)) }
func Yield()                                {}
func Sleep(d time.Duration)                 { time.Sleep(d) }
func NowNs() int64                          { return 0 }
func AllowDeadlock()                        {}
func Symbolic() bool                        { return false }
func IsConcrete(v interface{}) bool         { return true }
func IteInt(c bool, a, b int) int {
	if c {
		return a
	}
	return b
}
func IteByte(c bool, a, b byte) byte {
	if c {
		return a
	}
	return b
}
func IteBool(c bool, a, b bool) bool {
	if c {
		return a
	}
	return b
}
func UFBool(name string, key string) bool { return val("uf:"+name+":"+key) != 0 }
func Crash()                              { panic("verifrt: crash point") }
