//verif:dest internal/verifrt/float.go

package verifrt

import "math"

func float64FromBits(u uint64) float64 { return math.Float64frombits(u) }
