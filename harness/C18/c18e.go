//verif:dest internal/discovery/zz_verif_c18e.go

package discovery

import (
	"regexp"

	"github.com/mimecast/dtail/internal/io/dlog"
	"github.com/mimecast/dtail/internal/source"
	"github.com/mimecast/dtail/internal/verifrt"
)

var c18ePatterns = []string{"^w1$", "w1", "^w", "1$", "w[1x]", "^$", "^w1\\.x$", "(?i)W1", "^(w1|x1)$"}

// VerifC18eRealFilter: a discovery list of k entries of l symbolic bytes,
// filtered by a /regex/ server expression with the real regexp engine: the
// servers wanted are exactly the entries the pattern matches under regexp
// semantics (the reference is the regexp package called directly), each once.
func VerifC18eRealFilter(pat, k, l int) {
	dlog.VerifInstall(source.Client)
	p := c18ePatterns[pat]
	entries := make([]string, k)
	for i := range entries {
		entries[i] = verifrt.StringIn("e", l, "w1x.")
	}
	d := New("", "/"+p+"/", Shuffle)
	verifrt.Assert(d.regex != nil && d.server == "", "filter expression not recognised")
	in := append([]string{}, entries...)
	servers := d.filterList(in)
	servers = d.dedupList(servers)
	servers = d.shuffleList(servers)
	ref := regexp.MustCompile(p)
	var wanted []string
	for _, e := range entries {
		if ref.MatchString(e) {
			wanted = append(wanted, e)
		}
	}
	c18Check(servers, wanted)
	verifrt.Reach("checked")
}
