//verif:dest internal/clients/zz_verif_c18f.go

package clients

import (
	"flag"
	"os"
	"strings"

	"github.com/mimecast/dtail/internal/config"
	"github.com/mimecast/dtail/internal/io/dlog"
	"github.com/mimecast/dtail/internal/source"
	"github.com/mimecast/dtail/internal/verifh/memfs"
	"github.com/mimecast/dtail/internal/verifrt"
)

// VerifC18fFromCommandLine: the way the commands go - config.Setup on the
// parsed arguments, then the client constructor with its discovery - for a
// --servers value that is a server file in a directory with upper-case
// letters, a comma list with mixed-case names, or one plain name: the
// connections are made for exactly the wanted servers, each once.
func VerifC18fFromCommandLine() {
	os.Setenv("HOME", "/home/u")
	if verifrt.Symbolic() {
		flag.CommandLine = flag.NewFlagSet("dgrep", flag.ContinueOnError) // (package initialisers do not run under the engine)
	}
	memfs.Reset()
	memfs.FS["/etc/Inventory/Servers.txt"] = &memfs.File{Data: []byte("Alpha\nbeta:2223\n")}
	var args config.Args
	args.ConfigFile = "none"
	args.LogLevel = config.DefaultLogLevel
	args.SSHPort = config.DefaultSSHPort
	args.UserName = "u"
	args.What = "/var/log/x.log"
	args.RegexStr = "x"
	args.Quiet = true
	var want []string
	switch verifrt.Choose("servers-argument", 3) {
	case 0:
		args.ServersStr = "/etc/Inventory/Servers.txt"
		want = []string{"Alpha", "beta:2223"}
		verifrt.Reach("server-file")
	case 1:
		args.ServersStr = "Alpha,beta:2223"
		want = []string{"Alpha", "beta:2223"}
	default:
		args.ServersStr = "gamma"
		want = []string{"gamma"}
	}
	config.Setup(source.Client, &args, nil)
	dlog.VerifInstall(source.Client)
	verifrt.Assert(!args.Serverless, "a run with --servers became serverless")
	c, err := NewGrepClient(args)
	verifrt.Assert(err == nil && c != nil, "NewGrepClient failed")
	seen := map[string]int{}
	for _, conn := range c.connections {
		found := false
		for _, w := range want {
			if strings.EqualFold(w, conn.Server()) { // (host names are case-insensitive)
				seen[w]++
				found = true
			}
		}
		verifrt.Assert(found, "a connection is made for something that is not a wanted server")
	}
	for _, w := range want {
		verifrt.Assert(seen[w] >= 1, "a wanted server gets no connection")
		verifrt.Assert(seen[w] <= 1, "a wanted server gets more than one connection")
	}
	verifrt.Reach("checked")
}
