//verif:dest internal/clients/zz_verif_c18d.go

package clients

import (
	"context"
	"os"
	"time"

	"github.com/mimecast/dtail/internal/config"
	"github.com/mimecast/dtail/internal/io/dlog"
	"github.com/mimecast/dtail/internal/omode"
	"github.com/mimecast/dtail/internal/source"
	sshclient "github.com/mimecast/dtail/internal/ssh/client"
	"github.com/mimecast/dtail/internal/verifh/memfs"
	"github.com/mimecast/dtail/internal/verifrt"
)

// VerifC18dContacted: a following client (it reconnects after a lost
// connection) with a comma separated server list whose entries have a port or
// not: over several rounds of lost connections every address dialled is the
// address of a wanted server (entry's port, or the default port), every wanted
// server is dialled in every round, and nothing else is.
func VerifC18dContacted(n int) {
	dlog.VerifInstall(source.Client)
	config.Common = &config.CommonConfig{SSHPort: 2222}
	memfs.Reset()
	verifNetReset()
	os.Setenv("HOME", "/home/u")
	sshclient.VerifC17ResetVerdicts()
	names := []string{"alpha", "beta", "gamma", "delta", "eps", "zeta"}[:n]
	list := ""
	want := map[string]bool{}
	for i, name := range names {
		entry := name
		addr := name + ":2222"
		choice := 0
		if i < 2 { // (the port forms of the first two entries are symbolic; more entries only add servers)
			choice = verifrt.Choose("port", 3)
		}
		switch choice {
		case 1:
			entry, addr = name+":2223", name+":2223"
		case 2:
			entry, addr = name+":22", name+":22"
		}
		if i > 0 {
			list += ","
		}
		list += entry
		want[addr] = true
	}
	var args config.Args
	args.ServersStr = list
	args.UserName = "u"
	args.What = "/var/log/x.log"
	args.RegexStr = "x"
	args.Mode = omode.TailClient
	args.ConnectionsPerCPU = 1
	args.Quiet = true
	c, err := NewTailClient(args)
	verifrt.Assert(err == nil && c != nil, "NewTailClient failed")
	ctx, cancel := context.WithCancel(context.Background())
	go c.Start(ctx, nil)
	verifrt.Sleep(9 * time.Second) // first contact, then reconnects every 2 s
	cancel()
	verifrt.Sleep(3 * time.Second)
	count := map[string]int{}
	for _, a := range VerifDialled {
		verifrt.Assert(want[a], "an address was dialled that belongs to no server of the list")
		count[a]++
	}
	for a := range want {
		verifrt.Assert(count[a] >= 1, "a server of the list was never contacted")
		verifrt.Assert(count[a] >= 2, "a server of the list was not contacted again after its connection was lost")
	}
	verifrt.Reach("reconnected")
}
