//verif:dest internal/discovery/zz_verif_c18.go
//verif:replace os.Stat = c18Stat
//verif:replace math/rand.New = c18RandNew
//verif:replace math/rand.NewSource = c18RandSource
//verif:replace (*math/rand.Rand).Intn = c18Intn
//verif:replace@C18b regexp.Compile = c18Compile
//verif:replace@C18b (*regexp.Regexp).MatchString = c18Match

package discovery

import (
	"errors"
	"math/rand"
	"os"
	"regexp"

	"github.com/mimecast/dtail/internal/io/dlog"
	"github.com/mimecast/dtail/internal/source"
	"github.com/mimecast/dtail/internal/verifrt"
)

// ---- environment stubs (listed in the evidence) ----

func c18Stat(name string) (os.FileInfo, error) { return nil, errors.New("stat: no such file") }
func c18RandNew(src rand.Source) *rand.Rand    { return new(rand.Rand) }
func c18RandSource(seed int64) rand.Source     { return nil }

// every draw of the shuffle is an arbitrary value in [0,n)
func c18Intn(r *rand.Rand, n int) int { return verifrt.IntRange("rand", 0, n-1) }

func c18Compile(expr string) (*regexp.Regexp, error) { return new(regexp.Regexp), nil }

// the filter verdict is an uninterpreted predicate of the entry's bytes
func c18Match(re *regexp.Regexp, s string) bool { return verifrt.UFBool("match", s) }

// ---- reference ----

// c18Fields splits s at commas (reference implementation, byte by byte).
func c18Fields(s string) []string {
	var out []string
	start := 0
	for i := 0; i < len(s); i++ {
		if s[i] == ',' {
			out = append(out, s[start:i])
			start = i + 1
		}
	}
	return append(out, s[start:])
}

func c18Count(list []string, x string) int {
	n := 0
	for _, e := range list {
		if e == x {
			n++
		}
	}
	return n
}

// c18Check asserts: got is exactly the set of distinct wanted entries, each once.
func c18Check(got, wanted []string) {
	for _, w := range wanted {
		verifrt.Assert(c18Count(got, w) == 1, "a wanted server is missing or contacted more than once")
	}
	for _, g := range got {
		verifrt.Assert(c18Count(wanted, g) >= 1, "a server was invented")
	}
	// no duplicates in got (follows from the above, asserted directly as well)
	for _, g := range got {
		verifrt.Assert(c18Count(got, g) == 1, "a server appears twice")
	}
	verifrt.Reach("checked")
}

// VerifC18Comma: comma separated list of n symbolic bytes, shuffled.
func VerifC18Comma(n int) {
	dlog.VerifInstall(source.Client)
	s := verifrt.String("servers", n)
	// "/.../" is a filter expression, not a list: covered by VerifC18Filter
	verifrt.Assume(!(n >= 1 && s[0] == '/' && s[n-1] == '/'))
	d := New("", s, Shuffle)
	got := d.ServerList()
	c18Check(got, c18Fields(s))
	if len(got) > 1 {
		verifrt.Reach("several-servers")
	}
	if len(got) < len(c18Fields(s)) {
		verifrt.Reach("duplicates-removed")
	}
}

// VerifC18Filter: k entries of up to 2 symbolic bytes each from a discovery
// source, filtered by a regex (verdict uninterpreted), deduplicated, shuffled.
func VerifC18Filter(k, l int) {
	dlog.VerifInstall(source.Client)
	entries := make([]string, k)
	for i := range entries {
		entries[i] = verifrt.String("e", l)
	}
	d := New("", "/x/", Shuffle)
	verifrt.Assert(d.regex != nil && d.server == "", "filter expression not recognised")
	in := append([]string{}, entries...)
	servers := d.filterList(in)
	servers = d.dedupList(servers)
	servers = d.shuffleList(servers)
	var wanted []string
	for _, e := range entries {
		if c18Match(nil, e) {
			wanted = append(wanted, e)
		}
	}
	c18Check(servers, wanted)
	if len(wanted) < k && len(wanted) > 0 {
		verifrt.Reach("some-filtered-out")
	}
}
