//verif:dest internal/discovery/zz_verif_c18c.go
//verif:replace@C18c os.Stat = c18cStat

package discovery

import (
	"os"

	"github.com/mimecast/dtail/internal/io/dlog"
	"github.com/mimecast/dtail/internal/source"
	"github.com/mimecast/dtail/internal/verifh/memfs"
	"github.com/mimecast/dtail/internal/verifrt"
)

func c18cStat(name string) (os.FileInfo, error) {
	if _, ok := memfs.FS[name]; ok {
		return nil, nil
	}
	return nil, os.ErrNotExist
}

// VerifC18cFile: the server list comes from a file of n arbitrary bytes (one
// server per line): the result is the distinct lines, each once.
func VerifC18cFile(n int) {
	dlog.VerifInstall(source.Client)
	memfs.Reset()
	content := verifrt.StringIn("file", n, "ab\n\r,")
	memfs.FS["servers.txt"] = &memfs.File{Data: []byte(content)}
	d := New("", "servers.txt", Shuffle)
	got := d.ServerList()
	// reference: bufio.Scanner lines (split at \n, one trailing \r dropped, no empty last line)
	var want []string
	rest := content
	for len(rest) > 0 {
		i := 0
		for i < len(rest) && rest[i] != '\n' {
			i++
		}
		l := rest[:i]
		if i < len(rest) {
			rest = rest[i+1:]
		} else {
			rest = ""
		}
		if len(l) > 0 && l[len(l)-1] == '\r' {
			l = l[:len(l)-1]
		}
		want = append(want, l)
	}
	c18Check(got, want)
	if len(want) > 1 {
		verifrt.Reach("several-lines")
	}
}
