//verif:dest internal/discovery/zz_verif_c18c.go
//verif:replace@C18c os.Stat = c18cStat

package discovery

import (
	"errors"
	iofs "io/fs"
	"os"
	"time"

	"github.com/mimecast/dtail/internal/io/dlog"
	"github.com/mimecast/dtail/internal/source"
	"github.com/mimecast/dtail/internal/verifh/memfs"
	"github.com/mimecast/dtail/internal/verifrt"
)

// what kind of file the server list is: a regular file, a named pipe (--servers <(inventory)
// gives /dev/fd/N of a pipe) or a character device (/dev/stdin on a terminal)
var c18cMode iofs.FileMode

type c18cInfo struct{ mode iofs.FileMode }

func (i c18cInfo) Name() string        { return "servers" }
func (i c18cInfo) Size() int64         { return 0 }
func (i c18cInfo) Mode() iofs.FileMode { return i.mode }
func (i c18cInfo) ModTime() time.Time  { return time.Time{} }
func (i c18cInfo) IsDir() bool         { return false }
func (i c18cInfo) Sys() interface{}    { return nil }

func c18cStat(name string) (os.FileInfo, error) {
	if _, ok := memfs.FS[name]; ok {
		return c18cInfo{c18cMode}, nil
	}
	return nil, errors.New("stat " + name + ": no such file or directory")
}

// VerifC18cFile: the server list comes from a file of n arbitrary bytes (one
// server per line): the result is the distinct lines, each once.
func VerifC18cFile(n int) {
	dlog.VerifInstall(source.Client)
	memfs.Reset()
	c18cMode = []iofs.FileMode{0o644, iofs.ModeNamedPipe | 0o600, iofs.ModeDevice | iofs.ModeCharDevice | 0o620}[verifrt.Choose("kind-of-file", 3)]
	content := verifrt.StringIn("file", n, "ab\n\r,")
	memfs.FS["servers.txt"] = &memfs.File{Data: []byte(content)}
	d := New("", "servers.txt", Shuffle)
	got := d.ServerList()
	// reference: bufio.Scanner lines (split at \n, one trailing \r dropped, no empty last line)
	var want []string
	rest := content
	for len(rest) > 0 {
		i := 0
		for i < len(rest) && rest[i] != '\n' {
			i++
		}
		l := rest[:i]
		if i < len(rest) {
			rest = rest[i+1:]
		} else {
			rest = ""
		}
		if len(l) > 0 && l[len(l)-1] == '\r' {
			l = l[:len(l)-1]
		}
		want = append(want, l)
	}
	c18Check(got, want)
	if len(want) > 1 {
		verifrt.Reach("several-lines")
	}
}
