//verif:dest internal/server/handlers/zz_verif_c07f.go
//verif:replace@C07f path/filepath.Glob = c07fGlob
//verif:replace@C04g path/filepath.Glob = c07fGlob
//verif:replace@C03e path/filepath.Glob = c07fGlob
//verif:replace@C02g path/filepath.Glob = c07fGlob
//verif:replace@C07f (*github.com/mimecast/dtail/internal/user/server.User).HasFilePermission = c07fPerm
//verif:replace@C04g (*github.com/mimecast/dtail/internal/user/server.User).HasFilePermission = c07fPerm
//verif:replace@C03e (*github.com/mimecast/dtail/internal/user/server.User).HasFilePermission = c07fPerm
//verif:replace@C02g (*github.com/mimecast/dtail/internal/user/server.User).HasFilePermission = c07fPerm
//verif:replace@C07f (*github.com/mimecast/dtail/internal/server/handlers.readCommand).read = c07fRead
//verif:replace@C04g (*github.com/mimecast/dtail/internal/server/handlers.readCommand).read = c07fRead
//verif:replace@C03e (*github.com/mimecast/dtail/internal/server/handlers.readCommand).read = c07fRead
//verif:replace@C02g (*github.com/mimecast/dtail/internal/server/handlers.readCommand).read = c07fRead

package handlers

import (
	"context"
	"encoding/base64"
	"time"

	"github.com/mimecast/dtail/internal/io/dlog"
	"github.com/mimecast/dtail/internal/lcontext"
	"github.com/mimecast/dtail/internal/regex"
	"github.com/mimecast/dtail/internal/source"
	user "github.com/mimecast/dtail/internal/user/server"
	"github.com/mimecast/dtail/internal/verifrt"
)

var c07fIDs map[string]string
var c07fReads map[string]int

// the file system below /var/log: two hosts' directories with the same file name
func c07fGlob(pattern string) ([]string, error) {
	if pattern == "/var/log/*/app.log" {
		return []string{"/var/log/web1/app.log", "/var/log/web2/app.log"}, nil
	}
	if pattern == "/srv/*/app.log" {
		// the first match is a directory the user may not read (sorted before the others)
		return []string{"/srv/audit/app.log", "/srv/web1/app.log", "/srv/web2/app.log"}, nil
	}
	if pattern == "/var/log/web1/*.log" {
		return []string{"/var/log/web1/app.log", "/var/log/web1/err.log"}, nil
	}
	return nil, nil
}
func c07fPerm(u *user.User, filePath, permissionType string) bool {
	return filePath != "/srv/audit/app.log"
}
func c07fRead(r *readCommand, ctx context.Context, ltx lcontext.LContext, path, globID string, re regex.Regex) {
	c07fIDs[path] = globID
	if c07fReads != nil {
		c07fReads[path]++
	}
}

var c07fGlobs = []struct {
	glob string
	want map[string]string
}{
	{"/var/log/*/app.log", map[string]string{"/var/log/web1/app.log": "web1", "/var/log/web2/app.log": "web2"}},
	{"/var/log//*/app.log", map[string]string{"/var/log/web1/app.log": "web1", "/var/log/web2/app.log": "web2"}},
	{"/var/log/./*/app.log", map[string]string{"/var/log/web1/app.log": "web1", "/var/log/web2/app.log": "web2"}},
	{"/var/x/../log/*/app.log", map[string]string{"/var/log/web1/app.log": "web1", "/var/log/web2/app.log": "web2"}},
	{"/var/log/*/./app.log", map[string]string{"/var/log/web1/app.log": "web1", "/var/log/web2/app.log": "web2"}},
	{"/var/log/web1/*.log", map[string]string{"/var/log/web1/app.log": "app.log", "/var/log/web1/err.log": "err.log"}},
	{"/var/log/web1//*.log", map[string]string{"/var/log/web1/app.log": "app.log", "/var/log/web1/err.log": "err.log"}},
	{"/var/log/web1/./*.log/", map[string]string{"/var/log/web1/app.log": "app.log", "/var/log/web1/err.log": "err.log"}},
	{"/srv/*/app.log", map[string]string{"/srv/web1/app.log": "web1", "/srv/web2/app.log": "web2"}},
}

// VerifC07fGlobSpelling: a read command whose glob is spelled in any of the
// equivalent ways a shell user may type it (doubled slash, ./, x/../, trailing
// slash) through Write/handleCommand/readCommand.Start/readGlob/readFiles: each
// matched file gets the identifier that tells it apart from the others (the
// path component under the wildcard), the same for every spelling.
func VerifC07fGlobSpelling() {
	dlog.VerifInstall(source.Server)
	c07fIDs = map[string]string{}
	g := c07fGlobs[verifrt.Choose("glob", len(c07fGlobs))]
	h := VerifNewServerHandler(false, false, false, 4, 4)
	cmd := "cat " + g.glob + " regex:noop "
	h.Write([]byte("protocol 4.1 base64 " + base64.StdEncoding.EncodeToString([]byte(cmd)) + ";"))
	verifrt.Sleep(12 * time.Second)
	verifrt.Assert(len(c07fIDs) == len(g.want), "the files read differ from the files the glob matches")
	for path, id := range g.want {
		got, ok := c07fIDs[path]
		verifrt.Assert(ok, "a matched file was not read")
		verifrt.Assert(got == id, "a file's identifier is not the path component under the wildcard: sources cannot be told apart")
	}
	verifrt.Reach("checked")
}

// VerifC04gFollowGlob: a follow (tail) or cat command whose file argument is a
// glob matching two files, through Write/handleCommand/readCommand.Start/
// readGlob/readFiles: each matched file gets exactly one reader - none is
// followed twice (its lines would be delivered twice), none is left out.
func VerifC04gFollowGlob(tail int) {
	dlog.VerifInstall(source.Server)
	c07fIDs = map[string]string{}
	c07fReads = map[string]int{}
	g := c07fGlobs[verifrt.Choose("glob", len(c07fGlobs))]
	h := VerifNewServerHandler(false, false, false, 4, 4)
	mode := "cat"
	if tail == 1 {
		mode = "tail"
	}
	cmd := mode + " " + g.glob + " regex:noop "
	h.Write([]byte("protocol 4.1 base64 " + base64.StdEncoding.EncodeToString([]byte(cmd)) + ";"))
	verifrt.Sleep(12 * time.Second)
	for path := range g.want {
		verifrt.Assert(c07fReads[path] >= 1, "a file matched by the glob is not followed")
		verifrt.Assert(c07fReads[path] <= 1, "a file matched by the glob is followed twice: its lines are delivered twice")
	}
	verifrt.Assert(len(c07fReads) == len(g.want), "a file the glob does not match is read")
	c07fReads = nil
	verifrt.Reach("each-once")
}
