//verif:dest internal/server/handlers/zz_verif_c07d.go

package handlers

import (
	"strings"

	"github.com/mimecast/dtail/internal/io/dlog"
	"github.com/mimecast/dtail/internal/omode"
	"github.com/mimecast/dtail/internal/source"
	"github.com/mimecast/dtail/internal/verifrt"
)

// VerifC07dGlobID: the file identifier: the path segments under the '*' segments
// of the glob, else the base name; never a panic for a glob that matched the path.
func VerifC07dGlobID(segs int) {
	dlog.VerifInstall(source.Server)
	h := VerifNewServerHandler(false, true, false, 2, 2)
	r := newReadCommand(h, omode.CatClient)
	var pathParts, globParts, wantParts []string
	for i := 0; i < segs; i++ {
		seg := "d" + verifrt.StringIn("seg", 1, "ab.")
		pathParts = append(pathParts, seg)
		switch verifrt.Choose("globseg", 3) {
		case 0:
			globParts = append(globParts, seg) // literal
		case 1:
			globParts = append(globParts, "*")
			wantParts = append(wantParts, seg)
		default:
			globParts = append(globParts, "d*")
			wantParts = append(wantParts, seg)
		}
	}
	path := "/" + strings.Join(pathParts, "/")
	glob := "/" + strings.Join(globParts, "/")
	got := r.makeGlobID(path, glob)
	want := pathParts[len(pathParts)-1]
	if len(wantParts) > 0 {
		want = strings.Join(wantParts, "/")
	}
	verifrt.Assert(got == want, "file identifier is not the wildcard segments / base name")
	verifrt.Reach("id-checked")
}
