//verif:dest internal/verifh/c07/c07g.go
//verif:replace@C07g fmt.Print = c07gPrint
//verif:replace@C16e fmt.Print = c07gPrint
//verif:replace@C07g fmt.Println = c07gPrintln
//verif:replace@C16e fmt.Println = c07gPrintln
//verif:replace@C07g (*os.File).Write = c07gFileWrite
//verif:replace@C16e (*os.File).Write = c07gFileWrite
//verif:replace@C07g (*os.File).WriteString = c07gFileWriteString
//verif:replace@C16e (*os.File).WriteString = c07gFileWriteString

package c07

import (
	"os"
	"strings"
	"time"

	chandlers "github.com/mimecast/dtail/internal/clients/handlers"
	"github.com/mimecast/dtail/internal/io/dlog"
	"github.com/mimecast/dtail/internal/source"
	"github.com/mimecast/dtail/internal/verifrt"
)

// the terminal: a print arrives in two halves with a scheduling point in
// between (a write(2) of a long line is not atomic with respect to other
// threads of the process unless the program serialises its prints)
var c07gTerminal []byte

func c07gEmit(s string) {
	h := len(s) / 2
	c07gTerminal = append(c07gTerminal, s[:h]...)
	verifrt.Yield()
	c07gTerminal = append(c07gTerminal, s[h:]...)
}
// whatever is written to a standard stream reaches the terminal as well
func c07gFileWrite(f *os.File, b []byte) (int, error) {
	c07gEmit(string(b))
	return len(b), nil
}
func c07gFileWriteString(f *os.File, s string) (int, error) { return c07gFileWrite(f, []byte(s)) }
func c07gPrint(a ...interface{}) (int, error) {
	s := ""
	for _, x := range a {
		s += x.(string)
	}
	c07gEmit(s)
	return len(s), nil
}
func c07gPrintln(a ...interface{}) (int, error) {
	s := ""
	for i, x := range a {
		if i > 0 {
			s += " "
		}
		s += x.(string)
	}
	c07gEmit(s + "\n")
	return len(s) + 1, nil
}

// VerifC07gTerminal: two connections deliver k records each at the same time
// through their client handlers into the *real* stdout logger (loggers.stdout
// from the factory, as dlog.Start installs it): whatever the interleaving of
// the two handler goroutines and of the logger's prints, the terminal shows a
// sequence of whole records, each source's records in order.
func VerifC07gTerminal(k int) {
	dlog.VerifInstallReal(source.Client, "stdout")
	c07gTerminal = nil
	var want [2][]string
	// what a log line may contain: printf verbs and per-cent signs included
	texts := []string{"line-", "disk 93% full ", "%s %d %% ", "%!"}
	text := texts[verifrt.Choose("content", len(texts))]
	done := make(chan struct{}, 2)
	for src := 0; src < 2; src++ {
		h := chandlers.NewClientHandler("srv" + string(rune('A'+src)))
		var wire []byte
		for i := 0; i < k; i++ {
			rec := "REMOTE|host" + string(rune('A'+src)) + "|100|" + string(rune('1'+i)) + "|f|" + text + string(rune('a'+i)) + "\n"
			want[src] = append(want[src], rec)
			wire = append(wire, rec...)
			wire = append(wire, 0xAC)
		}
		go func() {
			h.Write(wire)
			done <- struct{}{}
		}()
	}
	for i := 0; i < 2; i++ {
		select {
		case <-done:
		case <-time.After(time.Minute):
			verifrt.Assert(false, "a handler never finished printing")
		}
	}
	out := string(c07gTerminal)
	next := [2]int{}
	for len(out) > 0 {
		matched := false
		for src := 0; src < 2; src++ {
			if next[src] < k && strings.HasPrefix(out, want[src][next[src]]) {
				out = out[len(want[src][next[src]]):]
				next[src]++
				matched = true
				break
			}
		}
		verifrt.Assert(matched, "the terminal shows something that is not the next whole record of one of the sources (records interleaved inside a line)")
		if !matched {
			return
		}
	}
	verifrt.Assert(next[0] == k && next[1] == k, "records are missing from the terminal")
	verifrt.Reach("whole-records")
}
