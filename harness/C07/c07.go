//verif:dest internal/verifh/c07/c07.go

// Package c07: multi-source output is a whole-line interleaving with correct attribution (C07).
package c07

import (
	"bytes"
	"strings"

	chandlers "github.com/mimecast/dtail/internal/clients/handlers"
	"github.com/mimecast/dtail/internal/io/dlog"
	"github.com/mimecast/dtail/internal/io/line"
	shandlers "github.com/mimecast/dtail/internal/server/handlers"
	"github.com/mimecast/dtail/internal/source"
	"github.com/mimecast/dtail/internal/verifrt"
)

func calls(lg *dlog.VerifLogger) []string { return append([]string{}, lg.Calls...) }

// VerifC07aReassembly: a wire stream of n arbitrary bytes delivered to one
// client handler in arbitrary chunks prints exactly what a single Write prints.
func VerifC07aReassembly(n int) {
	lg := dlog.VerifInstall(source.Client)
	stream := verifrt.Bytes("w", n)
	whole := chandlers.NewClientHandler("srv")
	whole.Write(stream)
	ref := calls(lg)

	lg2 := dlog.VerifInstall(source.Client)
	h := chandlers.NewClientHandler("srv")
	start := 0
	buf := make([]byte, n) // one transport buffer reused for every read, as io.Copy does
	for i := 1; i <= n; i++ {
		if i == n || verifrt.Bool("cut") {
			k := copy(buf, stream[start:i])
			h.Write(buf[:k])
			start = i
		}
	}
	got := calls(lg2)
	verifrt.Assert(len(got) == len(ref), "transport read boundaries change the number of printed messages")
	for i := range ref {
		if i < len(got) {
			verifrt.Assert(got[i] == ref[i], "transport read boundaries change a printed message")
		}
	}
	verifrt.Reach("compared")
}

// VerifC07bTwoSources: two handlers (two servers), each with its own stream and
// chunking, chunks delivered in an arbitrary interleaving: every logger call
// carries exactly one complete message of one source; per-source order is kept.
func VerifC07bTwoSources(n int) {
	lg := dlog.VerifInstall(source.Client)
	var streams [2][]byte
	var want [2][]string
	for s := 0; s < 2; s++ {
		// messages of source s are tagged with their source and index
		for i := 0; i < n; i++ {
			body := verifrt.StringIn("b", 1, "xy|. ")
			msg := "REMOTE|h" + string(rune('0'+s)) + "|100|" + string(rune('1'+i)) + "|f|" + body + "\n"
			want[s] = append(want[s], msg)
			streams[s] = append(streams[s], msg...)
			streams[s] = append(streams[s], 0xAC)
		}
	}
	hs := [2]*chandlers.ClientHandler{chandlers.NewClientHandler("s0"), chandlers.NewClientHandler("s1")}
	pos := [2]int{}
	bufs := [2][]byte{make([]byte, 64), make([]byte, 64)}
	for pos[0] < len(streams[0]) || pos[1] < len(streams[1]) {
		s := 0
		if pos[0] >= len(streams[0]) || (pos[1] < len(streams[1]) && verifrt.Bool("second-source-next")) {
			s = 1
		}
		// chunk: up to the next message boundary or a symbolic cut inside the message
		end := pos[s] + 1
		for end < len(streams[s]) && streams[s][end-1] != 0xAC {
			end++
		}
		// a message may arrive in two transport reads (cut after its 4th byte)
		atStart := pos[s] == 0 || streams[s][pos[s]-1] == 0xAC
		if atStart && end-pos[s] > 4 && verifrt.Bool("cut-inside") {
			end = pos[s] + 4
		}
		k := copy(bufs[s], streams[s][pos[s]:end]) // each connection reuses its transport buffer
		hs[s].Write(bufs[s][:k])
		pos[s] = end
	}
	next := [2]int{}
	for _, c := range lg.Calls {
		if c == "" {
			continue // the empty message after a newline-terminated record
		}
		s := -1
		if strings.HasPrefix(c, "REMOTE|h0|") {
			s = 0
		} else if strings.HasPrefix(c, "REMOTE|h1|") {
			s = 1
		}
		verifrt.Assert(s >= 0, "an output line is not one whole line of one source")
		if s >= 0 {
			verifrt.Assert(next[s] < n && c == want[s][next[s]], "an output line is not the next whole line of its source")
			next[s]++
		}
	}
	verifrt.Assert(next[0] == n && next[1] == n, "lines of a source are missing")
	verifrt.Reach("interleaved")
}

// VerifC07cLabel: the record the server builds for a line splits back into
// host, percentage, running number, file id and content.
func VerifC07cLabel(n, P int) {
	lg := dlog.VerifInstall(source.Client)
	sh := shandlers.VerifNewServerHandler(false, true, false, 2, 2)
	content := verifrt.StringIn("c", n, "ab|.\n \t0")
	for i := 0; i < n-1; i++ {
		verifrt.Assume(content[i] != '\n') // a line has its newline at the end only
	}
	id := "f" + verifrt.StringIn("id", 1, "ab/.0")
	count := uint64(verifrt.Choose("count", 3))*99 + 1
	perc := []int{100, 99, 7}[verifrt.Choose("perc", 3)]
	buf := &bytes.Buffer{}
	buf.WriteString(content)
	sh.VerifLines() <- &line.Line{Content: buf, Count: count, TransmittedPerc: perc, SourceID: id}
	p := make([]byte, P)
	h := chandlers.NewClientHandler("srv")
	for first := true; first || sh.VerifPending() > 0; first = false {
		k, err := sh.Read(p)
		verifrt.Assert(err == nil, "Read failed")
		h.Write(p[:k])
	}
	want := "REMOTE|host|" + pad3(perc) + "|" + utoa(count) + "|" + id + "|" + content
	frame := len(want) + 1
	var printed string
	for _, c := range lg.Calls {
		printed += c
	}
	if frame > P && printed != want {
		if verifrt.Known("C01-KF3") {
			// known (shared with C01): a record longer than the transport read is cut
			verifrt.Finding("C01-KF3", true)
		} else {
			verifrt.Assert(false, "a record longer than one transport read is not reassembled into the same line")
		}
		return
	}
	if frame > P {
		verifrt.Reach("record-longer-than-read")
	}
	if n == 0 || content[n-1] != '\n' {
		// a record for an unterminated last line is held until the delimiter: printed without newline
		verifrt.Assert(printed == want, "record differs from host|percentage|count|id|content")
		if printed == want && !strings.HasSuffix(printed, "\n") {
			verifrt.Reach("record-without-newline")
		}
		return
	}
	verifrt.Assert(printed == want, "record differs from host|percentage|count|id|content")
	parts := strings.SplitN(printed, "|", 6)
	verifrt.Assert(len(parts) == 6 && parts[1] == "host" && parts[3] == utoa(count) && parts[4] == id && parts[5] == content, "label fields do not split back")
	verifrt.Reach("labelled")
}

func utoa(n uint64) string {
	if n == 0 {
		return "0"
	}
	s := ""
	for n > 0 {
		s = string(rune('0'+n%10)) + s
		n /= 10
	}
	return s
}

func pad3(n int) string {
	s := utoa(uint64(n))
	for len(s) < 3 {
		s = " " + s
	}
	return s
}

// VerifC07eQueued: k records are queued on one connection, each shorter or
// longer than the transport read (P bytes, one reused buffer as io.Copy has);
// the client prints exactly the k records, each whole, in order.
func VerifC07eQueued(k, P int) {
	lg := dlog.VerifInstall(source.Client)
	sh := shandlers.VerifNewServerHandler(false, true, false, 2, 2)
	var want []string
	for i := 0; i < k; i++ {
		n := []int{1, P - 10, P + 3, 2*P + 1}[verifrt.Choose("len", 4)]
		if n < 1 {
			n = 1
		}
		content := ""
		for j := 0; j < n-1; j++ {
			content += string(rune('a' + i))
		}
		content += "\n"
		buf := &bytes.Buffer{}
		buf.WriteString(content)
		sh.VerifLines() <- &line.Line{Content: buf, Count: uint64(i + 1), TransmittedPerc: 100, SourceID: "f"}
		want = append(want, "REMOTE|host|100|"+utoa(uint64(i+1))+"|f|"+content)
	}
	p := make([]byte, P)
	h := chandlers.NewClientHandler("srv")
	for len(sh.VerifLines()) > 0 || sh.VerifPending() > 0 {
		n, err := sh.Read(p)
		verifrt.Assert(err == nil, "Read failed")
		verifrt.Assert(n <= P, "Read reports more bytes than the buffer holds")
		h.Write(p[:n])
	}
	var printed []string
	for _, c := range lg.Calls {
		if c != "" { // (the delimiter after a newline-terminated record yields an empty message)
			printed = append(printed, c)
		}
	}
	verifrt.Assert(len(printed) == k, "the number of printed records differs from the number of lines sent")
	for i := 0; i < k && i < len(printed); i++ {
		verifrt.Assert(printed[i] == want[i], "a record is truncated, glued to its neighbour or attributed wrongly")
	}
	verifrt.Reach("queued-records")
}
