//verif:dest internal/server/handlers/zz_verif_c10g.go
//verif:replace@C10g (*github.com/mimecast/dtail/internal/user/server.User).HasFilePermission = c10Perm
//verif:replace@C10g regexp.Compile = -
//verif:replace@C10g (*regexp.Regexp).Match = -

package handlers

import (
	"strings"
	"time"

	"github.com/mimecast/dtail/internal/config"
	"github.com/mimecast/dtail/internal/io/dlog"
	"github.com/mimecast/dtail/internal/io/fs"
	"github.com/mimecast/dtail/internal/source"
	"github.com/mimecast/dtail/internal/verifrt"
)

var c10gFuncs = []string{"count", "sum", "min", "max", "avg", "len", "last"}

// VerifC10gMapSession: a valid mapreduce query whose select list holds any two
// of the aggregation functions in any order (or one function and a plain
// field), followed by a cat of a file with matching lines, through the whole
// server side of the session (newMapCommand, server Aggregate.Start with its
// parser, where/set stages, aggregateAndSerialize, AggregateSet setters,
// Serialize): no goroutine of the server panics and the aggregate is sent.
func VerifC10gMapSession() {
	dlog.VerifInstall(source.Server)
	c10KnownPanics()
	config.Server.Permissions = config.Permissions{Default: []string{"^/.*$"}}
	config.Server.MaxLineLength = 1024
	config.Server.MapreduceLogFormat = "generickv"
	fs.VerifFiles = nil
	path := fs.VerifProvideNamed("/var/log/x.log", []byte("x=3|g=a|y=hello\nx=5|g=a|y=hi\nx=1|g=b|y=\n"))
	h := VerifNewServerHandler(false, false, false, 2, 2)
	var got []byte
	go func() {
		p := make([]byte, 4096)
		for {
			k, err := h.Read(p)
			if err != nil {
				return
			}
			got = append(got, p[:k]...)
		}
	}()
	f1 := c10gFuncs[verifrt.Choose("first", len(c10gFuncs))]
	second := verifrt.Choose("second", len(c10gFuncs)+2)
	sel := f1 + "(" + []string{"x", "y"}[verifrt.Choose("field", 2)] + ")"
	switch {
	case second < len(c10gFuncs):
		sel += "," + c10gFuncs[second] + "(x)"
	case second == len(c10gFuncs):
		sel += ",g"
	}
	mapCmd := "map select " + sel + " from . group by g interval 2"
	catCmd := "cat:quiet=true " + path + " regex:noop "
	if verifrt.Bool("read-first") {
		// a client of its own making: the read is sent first and is still running (a slow
		// disk: 2 s per line) when the valid map command arrives
		fs.VerifFiles[path].Chunks = []int{16, 15, 10}
		fs.VerifFiles[path].Pace = 2 * time.Second
		c10Payload = catCmd
		h.Write([]byte("protocol 4.1 base64 @;"))
		verifrt.Sleep(time.Second)
		c10Payload = mapCmd
		h.Write([]byte("protocol 4.1 base64 @;"))
		verifrt.Sleep(20 * time.Second)
		verifrt.Reach("map-after-read")
	} else {
		c10Payload = mapCmd
		h.Write([]byte("protocol 4.1 base64 @;"))
		verifrt.Sleep(time.Second)
		c10Payload = catCmd
		h.Write([]byte("protocol 4.1 base64 @;"))
		verifrt.Sleep(20 * time.Second)
		verifrt.Assert(strings.Contains(string(got), "AGGREGATE"), "a valid mapreduce session over matching lines sent no aggregate")
	}
	h.VerifShutdown()
	verifrt.Sleep(5 * time.Second)
	verifrt.Reach("survived")
}
