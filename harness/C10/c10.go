//verif:dest internal/server/handlers/zz_verif_c10.go
//verif:replace (*encoding/base64.Encoding).DecodeString = c10Decode
//verif:replace regexp.Compile = c10Compile
//verif:replace path/filepath.Glob = c10Glob
//verif:replace (*regexp.Regexp).Match = c10Match
//verif:replace@C10f (*github.com/mimecast/dtail/internal/user/server.User).HasFilePermission = c10Perm

package handlers

import (
	"encoding/base64"
	"errors"
	"path/filepath"
	"regexp"
	"time"

	"github.com/mimecast/dtail/internal/config"
	"github.com/mimecast/dtail/internal/io/dlog"
	"github.com/mimecast/dtail/internal/io/fs"
	"github.com/mimecast/dtail/internal/source"
	user "github.com/mimecast/dtail/internal/user/server"
	"github.com/mimecast/dtail/internal/verifrt"
)

// ---- stubs (listed in the evidence) ----

// The base64 layer is the identity here (C12 checks it faithfully): the
// payload "@" decodes to the symbolic command string of the harness.
var c10Payload string

func c10Decode(enc *base64.Encoding, s string) ([]byte, error) {
	if s == "@" {
		return []byte(c10Payload), nil
	}
	return enc.DecodeString(s)
}

// regexp.Compile may fail on any pattern but never panics (RE2 is trusted).
func c10Compile(expr string) (*regexp.Regexp, error) {
	if verifrt.UFBool("compiles", expr) {
		return new(regexp.Regexp), nil
	}
	return nil, errors.New("invalid regexp")
}

// no file matches (the file layer is exercised by C01-C04, C08), except in
// C10f, which provides in-memory files
func c10Glob(pattern string) ([]string, error) {
	if _, ok := fs.VerifFiles[pattern]; ok {
		return []string{pattern}, nil
	}
	// the (only) in-memory file of C10f, matched with the real filepath.Match
	if _, ok := fs.VerifFiles["/var/log/x.log"]; ok {
		if m, err := filepath.Match(pattern, "/var/log/x.log"); err == nil && m {
			return []string{"/var/log/x.log"}, nil
		}
	}
	return nil, nil
}

// a line matches if it starts with 'x'
func c10Match(re *regexp.Regexp, b []byte) bool { return len(b) > 0 && b[0] == 'x' }

// permissions are the subject of C08
func c10Perm(u *user.User, filePath, permissionType string) bool { return true }

// (the periodic serialisation timer runs for real; with "interval 0" it spins: the
// engine parks a goroutine that keeps asking for zero-duration timers, CPU exhaustion
// is outside C10)

const c10Alphabet = " :=,%;.`\"()$*/-_0123456789abcdefghijklmnopqrstuvwxyzAXZ\n\t|"

func c10KnownPanics() {
	// one root cause (handleBase64 sets argc to the length of the decoded string, not
	// the number of arguments): every use of args[i] guarded by argc can go out of range
	verifrt.KnownPanic("C10-KF1", "readCommand).Start", "out of range")
	verifrt.KnownPanic("C10-KF1", "handleAckCommand", "index out of range")
	verifrt.KnownPanic("C10-KF1", "newMapCommand", "out of range")
	// NewQuery("") returns (nil, nil); NewAggregate dereferences the query
	verifrt.KnownPanic("C10-KF2", "NewAggregate", "nil pointer dereference")
	// lone back-quote token (shared with C11-KF1)
	verifrt.KnownPanic("C11-KF1", "tokensConsume", "slice bounds out of range")
}

func c10Session(health bool) (write func(p []byte), settle func()) {
	dlog.VerifInstall(source.Server)
	c10KnownPanics()
	if health {
		h := VerifNewHealthHandler()
		return func(p []byte) { h.Write(p) }, func() { verifrt.Sleep(12 * time.Second) }
	}
	h := VerifNewServerHandler(false, false, false, 2, 2)
	return func(p []byte) { h.Write(p) }, func() { verifrt.Sleep(12 * time.Second) }
}

// VerifC10aWire: n arbitrary bytes written to a session.
func VerifC10aWire(n, health int) {
	write, settle := c10Session(health == 1)
	p := verifrt.Bytes("w", n)
	write(p)
	settle()
	verifrt.Reach("survived")
}

// VerifC10aEnvelope: well-formed and nearly well-formed envelopes with symbolic parts.
func VerifC10aEnvelope(n int) {
	write, settle := c10Session(false)
	v := verifrt.StringIn("v", n, c10Alphabet)
	forms := []string{
		"protocol " + v + " base64 Zm9v;",
		"protocol 4.1 " + v + " Zm9v;",
		"protocol 4.1 base64 " + v + ";",
		"protocol 4.1 base64 " + v + " x;",
		v + " 4.1 base64 Zm9v;",
		"protocol 4.1 base64;",
		"protocol 3 x y;" + v + ";",
	}
	write([]byte(forms[verifrt.Choose("form", len(forms))]))
	settle()
	verifrt.Reach("survived")
}

var c10Words = []string{"cat", "grep", "tail", "map", ".ack", "health", "timeout", ""}

// VerifC10bPayload: a well-formed envelope whose decoded payload is
// <command word><':' or ' ' or nothing><n symbolic bytes from the alphabet>.
func VerifC10bPayload(word, n, health int) {
	write, settle := c10Session(health == 1)
	w := c10Words[word]
	if w == "" {
		w = verifrt.StringIn("word", 2, c10Alphabet)
	}
	tail := verifrt.StringIn("t", n, c10Alphabet)
	sep := []string{"", " ", ":"}[verifrt.Choose("sep", 3)]
	c10Payload = w + sep + tail
	write([]byte("protocol 4.1 base64 @;"))
	settle()
	verifrt.Reach("survived")
}

var c10Queries = [][]string{
	{"map"},
	{"map "},
	{"map ", ""},
	{"map select ", ""},
	{"map select ", " from ", ""},
	{"map:", " select a from t"},
	{"map select count(a) from STATS where ", " ", " ", ""},
	{"map select a from t set ", " = ", ""},
	{"map select a from t logformat ", ""},
	{"map select a from t group by ", " interval ", " limit ", ""},
	{"map select a from t outfile ", " ", ""},
}

// VerifC10cQuery: map commands with query templates and symbolic holes.
func VerifC10cQuery(t, h int) {
	write, settle := c10Session(false)
	tpl := c10Queries[t]
	q := tpl[0]
	for i := 1; i < len(tpl); i++ {
		q += verifrt.StringIn("h", h, c10Alphabet) + tpl[i]
	}
	c10Payload = q
	write([]byte("protocol 4.1 base64 @;"))
	settle()
	verifrt.Reach("survived")
}

var c10Commands = []string{
	"tail:quiet=true /var/log/x.log regex:noop ",
	"cat:quiet=true /var/log/x.log regex:noop ",
	".ack close connection",
	"map select count(x) from T group by g",
	"grep:before=1:after=1 /var/log/x.log regex:default foo",
	"health",
	".ack close",
}

// VerifC10dSequence: k well-formed commands in one session, in every order
// (with repetitions), with a symbolic pause between them: a session that
// already runs commands must survive whatever else the client sends.
func VerifC10dSequence(k, subset int) {
	dlog.VerifInstall(source.Server)
	c10KnownPanics()
	h := VerifNewServerHandler(false, false, false, 2, 2)
	// the client side: it consumes what the server sends
	go func() {
		p := make([]byte, 4096)
		for {
			if _, err := h.Read(p); err != nil {
				return
			}
		}
	}()
	for i := 0; i < k; i++ {
		n := len(c10Commands)
		if subset == 1 {
			n = 3 // tail, cat, .ack close connection: the commands that interact through the session state
		}
		cmd := c10Commands[verifrt.Choose("command", n)]
		c10Payload = cmd
		h.Write([]byte("protocol 4.1 base64 @;"))
		if verifrt.Bool("pause") {
			verifrt.Sleep(2 * time.Second)
		}
	}
	verifrt.Sleep(70 * time.Second)
	verifrt.Reach("survived")
}

var c10fValues = []string{"-2", "-1", "0", "1", "2", "99999999999999999999", "x", ""}

// what a client may put where the filter is expected (flag list + pattern)
// how a client may spell the file argument
var c10fPaths = []string{"", "/var/log//*.log", "/var/./log/*.log", "/var/log/../log/x.l*", "//var/log/x.log", "/var/log/*.log/", "/var/*/x.log"}

var c10fFilters = []string{"regex:default x", "regex:invert x", "regex:noop x", "regex:invert,noop x", "regex:default,noop x",
	"regex:noop,invert x", "regex:bogus x", "regex: x", "regex:default,invert", "regex:default", "x", ""}

// VerifC10fReadOptions: a read command (grep, cat or tail) on a file that
// exists, with every combination of client-supplied before/after/max values
// out of {-2,-1,0,1,2, a number beyond int64, a non-number, empty}: the
// command runs through the real file layer (reader, filters, context state
// machine) and no goroutine of the server panics.
func VerifC10fReadOptions(mode int) {
	dlog.VerifInstall(source.Server)
	c10KnownPanics()
	config.Server.Permissions = config.Permissions{Default: []string{"^/.*$"}}
	config.Server.MaxLineLength = 1024
	fs.VerifFiles = nil
	path := fs.VerifProvideNamed("/var/log/x.log", []byte("a\nx1\nb\nx2\nc\n"))
	h := VerifNewServerHandler(false, false, false, 2, 2)
	go func() {
		p := make([]byte, 4096)
		for {
			if _, err := h.Read(p); err != nil {
				return
			}
		}
	}()
	word := []string{"grep", "cat", "tail"}[mode]
	opts := ""
	for _, name := range []string{"before", "after", "max"} {
		if v := verifrt.Choose(name, len(c10fValues)+1); v > 0 {
			opts += ":" + name + "=" + c10fValues[v-1]
		}
	}
	filter := c10fFilters[0]
	if opts == "" {
		// (with default options) every shape of the filter argument and every spelling of the file argument
		filter = c10fFilters[verifrt.Choose("filter", len(c10fFilters))]
		if filter == c10fFilters[0] {
			if sp := verifrt.Choose("path-spelling", len(c10fPaths)); sp > 0 {
				path = c10fPaths[sp]
			}
		}
	}
	c10Payload = word + opts + " " + path + " " + filter
	h.Write([]byte("protocol 4.1 base64 @;"))
	verifrt.Sleep(20 * time.Second)
	h.VerifShutdown()
	verifrt.Sleep(5 * time.Second)
	verifrt.Reach("survived")
}
