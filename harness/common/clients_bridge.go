//verif:dest internal/clients/zz_verif_clients.go

package clients

import (
	"time"

	"github.com/mimecast/dtail/internal/clients/handlers"
	"github.com/mimecast/dtail/internal/lcontext"
	"github.com/mimecast/dtail/internal/omode"
	"github.com/mimecast/dtail/internal/regex"
	shandlers "github.com/mimecast/dtail/internal/server/handlers"
)

// Harness support (overlay only): what the server makes of the commands a
// client built from its arguments.

// VerifBaseClient names the unexported base client for replacement stubs in other packages.
type VerifBaseClient = baseClient

// VerifServerView is the server side view of a client's request.
type VerifServerView struct {
	Commands                 []string
	Reads                    []shandlers.VerifGlob // one per read command the server executed
	Plain, Quiet, Serverless bool
	Query                    string
}

func (c *baseClient) VerifArgs() (regexStr string, invert bool, ltx lcontext.LContext, what string, mode omode.Mode) {
	return c.Args.RegexStr, c.Args.RegexInvert, c.Args.LContext, c.Args.What, c.Args.Mode
}
func (c *baseClient) VerifRegex() regex.Regex { return c.Regex }

// VerifServerSide sends the commands of the client (maker.makeCommands) through
// the real client handler (SendMessage: protocol version, base64 envelope) into
// a real server handler (Write/handleCommand/handleUserCommand/readCommand.Start)
// and reports what the server set out to do.
func VerifServerSide(c *baseClient) VerifServerView {
	var v VerifServerView
	v.Commands = c.maker.makeCommands()
	ch := handlers.NewClientHandler("srv")
	shandlers.VerifCaptureGlobs = true
	shandlers.VerifGlobCh = make(chan shandlers.VerifGlob, 16)
	sh := shandlers.VerifNewServerHandler(false, false, false, 2, 2)
	for _, cmd := range v.Commands {
		got := make(chan []byte, 1)
		go func() {
			p := make([]byte, 8192)
			n, _ := ch.Read(p)
			got <- p[:n]
		}()
		if err := ch.SendMessage(cmd); err != nil {
			continue
		}
		sh.Write(<-got)
	}
	for {
		select {
		case g := <-shandlers.VerifGlobCh:
			v.Reads = append(v.Reads, g)
			continue
		case <-time.After(time.Second):
		}
		break
	}
	v.Plain, v.Quiet, v.Serverless = sh.VerifFlags()
	v.Query = sh.VerifQuery()
	return v
}

// VerifBase gives replacement stubs of other packages the base client of a mapreduce client.
func (c *MaprClient) VerifBase() *baseClient { return &c.baseClient }
