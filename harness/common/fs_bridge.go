//verif:dest internal/io/fs/zz_verif_fs.go
//verif:replace (*github.com/mimecast/dtail/internal/io/fs.readFile).makeReader = verifMakeReader

package fs

// Harness support (overlay only): the file behind a reader is a byte slice
// owned by the harness; everything downstream of makeReader is the real code.

import (
	"bufio"
	"io"
	"os"
	"time"

	"github.com/mimecast/dtail/internal/verifrt"
)

// VerifProvide makes content available as a file and returns its path: under
// the engine an in-memory source behind makeReader, natively a real temp file.
func VerifProvide(content []byte) string {
	if verifrt.Symbolic() {
		VerifDefault = &VerifSource{Content: content}
		return "f"
	}
	f, err := os.CreateTemp("", "verif-c-")
	if err != nil {
		panic(err)
	}
	f.Write(content)
	f.Close()
	return f.Name()
}

// VerifSource scripts what the file descriptor returns.
type VerifSource struct {
	Content []byte
	Off     int
	// Chunks: if non-nil, the i-th Read returns at most Chunks[i] bytes; a value
	// of 0 means "return io.EOF now" (the writer has not written more yet).
	Chunks []int
	Call   int
	// AtEnd is called when the content is exhausted (tail harnesses cancel the context here).
	AtEnd func()
	// Pace: every Read takes this long (a slow disk); virtual time under the engine.
	Pace time.Duration
}

func (r *VerifSource) Read(p []byte) (int, error) {
	if r.Pace > 0 {
		verifrt.Sleep(r.Pace)
	}
	limit := len(p)
	if r.Chunks != nil {
		if r.Call < len(r.Chunks) {
			limit = r.Chunks[r.Call]
			r.Call++
			if limit == 0 {
				return 0, io.EOF
			}
		}
	}
	if r.Off >= len(r.Content) {
		if r.AtEnd != nil {
			r.AtEnd()
		}
		return 0, io.EOF
	}
	n := len(r.Content) - r.Off
	if n > limit {
		n = limit
	}
	if n > len(p) {
		n = len(p)
	}
	copy(p, r.Content[r.Off:r.Off+n])
	r.Off += n
	return n, nil
}

// VerifProvideNamed is VerifProvide for several files (engine: path name, native: temp file).
func VerifProvideNamed(name string, content []byte) string {
	if verifrt.Symbolic() {
		if VerifFiles == nil {
			VerifFiles = map[string]*VerifSource{}
		}
		VerifFiles[name] = &VerifSource{Content: content}
		return name
	}
	return VerifProvide(content)
}

// VerifFiles maps a file path to its scripted source; VerifDefault serves every other path.
var VerifFiles map[string]*VerifSource
var VerifDefault *VerifSource

// VerifRealReader: use the real makeReader (os.Open, compressed file readers); the
// harness then stands in for the os and compress calls below it.
var VerifRealReader bool

func verifMakeReader(f *readFile) (*bufio.Reader, *os.File, error) {
	if VerifRealReader {
		return f.makeReader()
	}
	if s, ok := VerifFiles[f.filePath]; ok {
		return bufio.NewReader(s), nil, nil
	}
	if VerifDefault == nil {
		return nil, nil, os.ErrNotExist
	}
	return bufio.NewReader(VerifDefault), nil, nil
}

// VerifReadFile names the unexported reader type for replacement stubs in other packages.
type VerifReadFile = readFile
