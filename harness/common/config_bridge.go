//verif:dest internal/config/zz_verif_config.go

package config

// VerifDefaultClient returns the default client configuration (colours on).
func VerifDefaultClient() *ClientConfig { return newDefaultClientConfig() }

// VerifDefaultServer returns the default server configuration.
func VerifDefaultServer() *ServerConfig { return newDefaultServerConfig() }
