//verif:dest internal/server/zz_verif_gossh.go
//verif:replace@C14 golang.org/x/crypto/ssh.NewServerConn = c14NewServerConn
//verif:replace@C14 golang.org/x/crypto/ssh.Unmarshal = c14Unmarshal
//verif:replace@C09d golang.org/x/crypto/ssh.NewServerConn = c14NewServerConn
//verif:replace@C09d golang.org/x/crypto/ssh.DiscardRequests = c14Discard
//verif:replace@C09d golang.org/x/crypto/ssh.Unmarshal = c14Unmarshal

package server

// gossh stand-ins behind the real interfaces (harness support, overlay only).

import (
	"errors"
	"io"
	"net"
	"time"

	"github.com/mimecast/dtail/internal/verifrt"

	gossh "golang.org/x/crypto/ssh"
)

// ---- gossh stand-ins behind the real interfaces ----

var c14Authenticated = map[int]bool{}

type c14Conn struct {
	user    string
	input   []byte // bytes the client sends on its session channel
	id      int
	kind    int
	closed  chan struct{}
	isClosed bool
	chans   chan gossh.NewChannel
	// with a mux (c14StartMux): the connection-wide request queue, and Wait returns
	// only when the mux goroutine has seen the end of the connection
	global   chan *gossh.Request
	waitDone chan struct{}
	// how long the SSH handshake of this connection takes (key exchange, authentication)
	handshake time.Duration
}

// c14ChanSize is x/crypto/ssh's chanSize: the buffering of the queues of new
// channels, of connection-wide requests and of the requests of one channel.
const c14ChanSize = 16

// c14StartMux models what the documentation of ssh.NewServerConn states: "The
// Request and NewChannel channels must be serviced, or the connection will
// hang." One goroutine per connection delivers what the client sent, in order,
// into the bounded queues; only after that it notices the end of the
// connection, closes the queues and lets Wait return.
func c14StartMux(c *c14Conn, nc *c14NewChan, globals int, requests []*gossh.Request) {
	go func() {
		for i := 0; i < globals; i++ {
			c.global <- &gossh.Request{Type: "keepalive@openssh.com"}
		}
		if nc != nil {
			c.chans <- nc
			for _, r := range requests {
				nc.reqs <- r
			}
		}
		<-c.closed
		if nc != nil {
			close(nc.reqs)
		}
		close(c.global)
		close(c.chans)
		close(c.waitDone)
	}()
}

func (c *c14Conn) User() string {
	if c.user != "" {
		return c.user
	}
	return "alice"
}
func (c *c14Conn) SessionID() []byte     { return nil }
func (c *c14Conn) ClientVersion() []byte { return nil }
func (c *c14Conn) ServerVersion() []byte { return nil }
func (c *c14Conn) RemoteAddr() net.Addr  { return c14Addr("10.0.0.1:5000") }
func (c *c14Conn) LocalAddr() net.Addr   { return c14Addr("0.0.0.0:2222") }
func (c *c14Conn) SendRequest(name string, wantReply bool, payload []byte) (bool, []byte, error) {
	return false, nil, nil
}
func (c *c14Conn) OpenChannel(name string, data []byte) (gossh.Channel, <-chan *gossh.Request, error) {
	return nil, nil, errors.New("not supported")
}
func (c *c14Conn) Close() error {
	if !c.isClosed {
		c.isClosed = true
		close(c.closed)
	}
	return nil
}
func (c *c14Conn) Wait() error {
	if c.waitDone != nil {
		<-c.waitDone
		return io.EOF
	}
	<-c.closed
	return io.EOF
}

// net.Conn side (only handed to the NewServerConn stub)
func (c *c14Conn) Read(b []byte) (int, error)         { return 0, io.EOF }
func (c *c14Conn) Write(b []byte) (int, error)        { return len(b), nil }
func (c *c14Conn) SetDeadline(t time.Time) error      { return nil }
func (c *c14Conn) SetReadDeadline(t time.Time) error  { return nil }
func (c *c14Conn) SetWriteDeadline(t time.Time) error { return nil }

type c14Addr string

func (a c14Addr) Network() string { return "tcp" }
func (a c14Addr) String() string  { return string(a) }

type c14NewChan struct {
	conn  *c14Conn
	ctype string
	reqs  chan *gossh.Request
	ch    *c14Channel
}

func (n *c14NewChan) Accept() (gossh.Channel, <-chan *gossh.Request, error) { return n.ch, n.reqs, nil }
func (n *c14NewChan) Reject(reason gossh.RejectionReason, message string) error { return nil }
func (n *c14NewChan) ChannelType() string { return n.ctype }
func (n *c14NewChan) ExtraData() []byte   { return nil }

type c14Channel struct{ conn *c14Conn }

func (c *c14Channel) Read(data []byte) (int, error) {
	if len(c.conn.input) > 0 {
		n := copy(data, c.conn.input)
		c.conn.input = c.conn.input[n:]
		return n, nil
	}
	<-c.conn.closed
	return 0, io.EOF
}
func (c *c14Channel) Write(data []byte) (int, error) { return len(data), nil }
func (c *c14Channel) Close() error                   { return nil }
func (c *c14Channel) CloseWrite() error              { return nil }
func (c *c14Channel) SendRequest(name string, wantReply bool, payload []byte) (bool, error) {
	return false, nil
}
func (c *c14Channel) Stderr() io.ReadWriter { return nil }

func c14NewServerConn(c net.Conn, cfg *gossh.ServerConfig) (*gossh.ServerConn, <-chan gossh.NewChannel, <-chan *gossh.Request, error) {
	conn := c.(*c14Conn)
	if conn.handshake > 0 {
		verifrt.Sleep(conn.handshake)
	}
	if conn.kind == 0 {
		return nil, nil, nil, errors.New("ssh: handshake failed: unable to authenticate")
	}
	c14Authenticated[conn.id] = true
	sc := &gossh.ServerConn{Conn: conn}
	if conn.global != nil {
		return sc, conn.chans, conn.global, nil
	}
	return sc, conn.chans, make(chan *gossh.Request), nil
}
func c14Discard(in <-chan *gossh.Request) {}
func c14Unmarshal(data []byte, out interface{}) error { return nil }

type c14Listener struct {
	incoming chan net.Conn
}

func (l *c14Listener) Accept() (net.Conn, error) {
	c, ok := <-l.incoming
	if !ok {
		return nil, errors.New("listener closed")
	}
	return c, nil
}
func (l *c14Listener) Close() error   { return nil }
func (l *c14Listener) Addr() net.Addr { return c14Addr("0.0.0.0:2222") }


