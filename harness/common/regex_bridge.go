//verif:dest internal/regex/zz_verif_regex.go

package regex

import "regexp"

// VerifParts exposes the fields of a Regex to harnesses (overlay only).
func (r Regex) VerifParts() (regexStr string, flags []Flag, initialized bool, re *regexp.Regexp) {
	return r.regexStr, r.flags, r.initialized, r.re
}
