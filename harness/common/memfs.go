//verif:dest internal/verifh/memfs/memfs.go
//verif:replace@C14g os.OpenFile = OpenFile
//verif:replace@C14g os.Open = Open
//verif:replace@C14g os.Rename = Rename
//verif:replace@C14g os.Remove = Remove
//verif:replace@C14g (*os.File).Read = Read
//verif:replace@C14g (*os.File).Close = Close
//verif:replace@C08e os.OpenFile = OpenFile
//verif:replace@C08e os.Open = Open
//verif:replace@C08e os.Rename = Rename
//verif:replace@C08e os.Remove = Remove
//verif:replace@C08e (*os.File).Read = Read
//verif:replace@C08e (*os.File).Close = Close
//verif:replace@C01h os.OpenFile = OpenFile
//verif:replace@C01h os.Open = Open
//verif:replace@C01h os.Rename = Rename
//verif:replace@C01h os.Remove = Remove
//verif:replace@C01h (*os.File).Read = Read
//verif:replace@C01h (*os.File).Close = Close
//verif:replace@C17 os.OpenFile = OpenFile
//verif:replace@C17 os.Open = Open
//verif:replace@C17 os.Rename = Rename
//verif:replace@C17 os.Remove = Remove
//verif:replace@C17 (*os.File).WriteString = WriteString
//verif:replace@C17 (*os.File).Write = Write
//verif:replace@C17 (*os.File).Read = Read
//verif:replace@C17 (*os.File).Close = Close
//verif:replace@C18c os.OpenFile = OpenFile
//verif:replace@C18c os.Open = Open
//verif:replace@C18c os.Rename = Rename
//verif:replace@C18c os.Remove = Remove
//verif:replace@C18c (*os.File).WriteString = WriteString
//verif:replace@C18c (*os.File).Write = Write
//verif:replace@C18c (*os.File).Read = Read
//verif:replace@C18c (*os.File).Close = Close
//verif:replace@C18f os.OpenFile = OpenFile
//verif:replace@C18f os.Open = Open
//verif:replace@C18f os.Rename = Rename
//verif:replace@C18f os.Remove = Remove
//verif:replace@C18f (*os.File).WriteString = WriteString
//verif:replace@C18f (*os.File).Write = Write
//verif:replace@C18f (*os.File).Read = Read
//verif:replace@C18f (*os.File).Close = Close
//verif:replace@C18d os.OpenFile = OpenFile
//verif:replace@C18d os.Open = Open
//verif:replace@C18d os.Rename = Rename
//verif:replace@C18d os.Remove = Remove
//verif:replace@C18d (*os.File).WriteString = WriteString
//verif:replace@C18d (*os.File).Write = Write
//verif:replace@C18d (*os.File).Read = Read
//verif:replace@C18d (*os.File).Close = Close

// Package memfs: a small in-memory file system standing in for the os calls
// of the code under test (harness support, overlay only).
package memfs

import (
	"errors"
	"io"
	"os"
)

type File struct{ Data []byte }
type handle struct {
	f   *File
	off int
}

var FS = map[string]*File{}
var open = map[*os.File]*handle{}
var Stdin []byte
var stdinOff int
var Renames []string

func Reset() {
	FS = map[string]*File{}
	open = map[*os.File]*handle{}
	Stdin, stdinOff, Renames = nil, 0, nil
}

func OpenFile(name string, flag int, perm os.FileMode) (*os.File, error) {
	f, ok := FS[name]
	if !ok {
		if flag&os.O_CREATE == 0 {
			return nil, errors.New("open " + name + ": no such file or directory")
		}
		f = &File{}
		FS[name] = f
	}
	if flag&os.O_TRUNC != 0 {
		f.Data = nil
	}
	h := new(os.File)
	open[h] = &handle{f: f}
	return h, nil
}

func Open(name string) (*os.File, error) { return OpenFile(name, os.O_RDONLY, 0) }

func Rename(from, to string) error {
	f, ok := FS[from]
	if !ok {
		return errors.New("rename: no such file")
	}
	FS[to] = f
	delete(FS, from)
	Renames = append(Renames, from+"->"+to)
	return nil
}

func Remove(name string) error { delete(FS, name); return nil }

func WriteString(fd *os.File, s string) (int, error) {
	h := open[fd]
	h.f.Data = append(h.f.Data, s...)
	return len(s), nil
}

func Write(fd *os.File, p []byte) (int, error) {
	h := open[fd]
	h.f.Data = append(h.f.Data, p...)
	return len(p), nil
}

func Read(fd *os.File, p []byte) (int, error) {
	if fd == nil || fd == os.Stdin { // the standard input of the process
		if stdinOff >= len(Stdin) {
			return 0, io.EOF
		}
		// a terminal in canonical mode hands over one line per read
		rest := Stdin[stdinOff:]
		for i, b := range rest {
			if b == '\n' {
				rest = rest[:i+1]
				break
			}
		}
		n := copy(p, rest)
		stdinOff += n
		return n, nil
	}
	h := open[fd]
	if h.off >= len(h.f.Data) {
		return 0, io.EOF
	}
	n := copy(p, h.f.Data[h.off:])
	h.off += n
	return n, nil
}

func Close(fd *os.File) error { return nil }
