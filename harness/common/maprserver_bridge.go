//verif:dest internal/mapr/server/zz_verif_maprserver.go

package server

import (
	"bytes"
	"context"

	"github.com/mimecast/dtail/internal/io/line"
)

// VerifAggregate runs the real server side pipeline behind the file readers
// (fieldFromLine: parser.MakeFields + WhereClause; setAdditionalFields;
// aggregateAndSerialize with its periodic serialisation, triggered here through
// Serialize() after every batch but the last, as the interval timer does, and
// the final serialisation when the input ends) over batches of lines. It
// returns the messages, grouped by the batch after which they were collected.
// (Which file's channel the aggregator reads next is the subject of C06.)
func VerifAggregate(queryStr string, batches [][]string) ([][]string, error) {
	a, err := NewAggregate(queryStr)
	if err != nil {
		return nil, err
	}
	ctx := context.Background()
	fieldsCh := make(chan map[string]string)
	var in <-chan map[string]string = fieldsCh
	if len(a.query.Set) > 0 {
		in = a.setAdditionalFields(ctx, fieldsCh)
	}
	msgs := make(chan string, 4096)
	done := make(chan struct{})
	go func() {
		a.aggregateAndSerialize(ctx, in, msgs)
		close(done)
	}()
	var out [][]string
	collect := func() {
		var got []string
		for len(msgs) > 0 {
			got = append(got, <-msgs)
		}
		out = append(out, got)
	}
	for bi, lines := range batches {
		for _, l := range lines {
			a.fieldFromLine(ctx, &line.Line{Content: bytes.NewBufferString(l), Count: 1, TransmittedPerc: 100, SourceID: "f"}, fieldsCh)
		}
		if bi < len(batches)-1 {
			a.Serialize(ctx) // what aggregateTimer does every interval
			// a marker field set that aggregates nothing makes sure the serialisation has completed
			a.Serialize(ctx)
			collect()
		}
	}
	close(fieldsCh)
	<-done
	collect()
	return out, nil
}

func (a *Aggregate) VerifRawQuery() string { return a.query.RawQuery }
