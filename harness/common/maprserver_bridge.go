//verif:dest internal/mapr/server/zz_verif_maprserver.go

package server

import (
	"context"
	"strings"

	"github.com/mimecast/dtail/internal/mapr"
)

// VerifAggregate runs the real per-line path of the server side aggregator
// (parser.MakeFields, WhereClause, SetClause, aggregate) over batches of
// lines, serialising (GroupSet.Serialize) after every batch, as the interval
// timer does. It returns the messages of each batch. (The goroutine plumbing
// around these calls is the subject of C06.)
func VerifAggregate(queryStr string, batches [][]string) ([][]string, error) {
	a, err := NewAggregate(queryStr)
	if err != nil {
		return nil, err
	}
	ctx := context.Background()
	var out [][]string
	for _, lines := range batches {
		group := mapr.NewGroupSet()
		for _, l := range lines {
			maprLine := strings.TrimSpace(l)
			fields, err := a.parser.MakeFields(maprLine)
			if err != nil {
				continue
			}
			if !a.query.WhereClause(fields) {
				continue
			}
			if len(a.query.Set) > 0 {
				a.query.SetClause(fields)
			}
			a.aggregate(group, fields)
		}
		ch := make(chan string, 1000)
		group.Serialize(ctx, ch)
		var msgs []string
		for len(ch) > 0 {
			msgs = append(msgs, <-ch)
		}
		out = append(out, msgs)
	}
	return out, nil
}

func (a *Aggregate) VerifRawQuery() string { return a.query.RawQuery }
