//verif:dest internal/mapr/server/zz_verif_maprserver.go

package server

import (
	"bytes"
	"context"
	"time"

	"github.com/mimecast/dtail/internal/io/line"
	"github.com/mimecast/dtail/internal/verifrt"
)

// VerifAggregate runs the real server side aggregator (Aggregate.Start: the
// goroutine pipeline from the file readers' line channel through parsing,
// where and set clauses to aggregation and serialisation) over batches of
// lines: the lines of a batch are handed over on a registered line channel, as
// a file reader does; after every batch but the last the harness triggers the
// periodic serialisation (Serialize(), what the interval timer does); closing
// the channel ends the run with the final serialisation. It returns the
// messages, grouped by the batch after which they were collected.
func VerifAggregate(queryStr string, batches [][]string) ([][]string, error) {
	a, err := NewAggregate(queryStr)
	if err != nil {
		return nil, err
	}
	ctx, cancel := context.WithCancel(context.Background())
	defer cancel()
	msgs := make(chan string, 4096)
	done := make(chan struct{})
	lines := make(chan *line.Line, 100)
	a.NextLinesCh <- lines
	go func() {
		a.Start(ctx, msgs)
		close(done)
	}()
	var out [][]string
	collect := func() {
		var got []string
		for len(msgs) > 0 {
			got = append(got, <-msgs)
		}
		out = append(out, got)
	}
	for bi, batch := range batches {
		for _, l := range batch {
			lines <- &line.Line{Content: bytes.NewBufferString(l), Count: 1, TransmittedPerc: 100, SourceID: "f"}
		}
		if bi < len(batches)-1 {
			// let the aggregator take what has been handed over, then trigger the
			// periodic serialisation twice (the second returns once the first is complete)
			verifrt.Sleep(500 * time.Millisecond)
			a.Serialize(ctx)
			a.Serialize(ctx)
			collect()
		}
	}
	close(lines)
	select {
	case <-done:
	case <-time.After(30 * time.Second):
	}
	collect()
	return out, nil
}

func (a *Aggregate) VerifRawQuery() string { return a.query.RawQuery }
