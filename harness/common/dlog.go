//verif:dest internal/io/dlog/zz_verif_dlog.go
//verif:replace (*github.com/mimecast/dtail/internal/io/dlog.DLog).Debug = verifNoLog
//verif:replace (*github.com/mimecast/dtail/internal/io/dlog.DLog).Trace = verifNoLog
//verif:replace (*github.com/mimecast/dtail/internal/io/dlog.DLog).Devel = verifNoLog
//verif:replace (*github.com/mimecast/dtail/internal/io/dlog.DLog).Verbose = verifNoLog
//verif:replace (*github.com/mimecast/dtail/internal/io/dlog.DLog).Info = verifNoLog
//verif:replace (*github.com/mimecast/dtail/internal/io/dlog.DLog).Mapreduce = verifNoMapr

package dlog

// Harness support (overlay only, never written into /repo): a capture logger
// with the semantics of loggers.stdout (Raw = print without newline, Log =
// print + newline) and an installer for the three package-level loggers.
// Debug/Trace/Devel/Verbose/Info get empty bodies (their text is never part of
// a property); Warn/Error/Fatal/FatalPanic/Raw/Mapreduce run for real.

import (
	"context"
	"os"
	"sync"
	"time"

	"github.com/mimecast/dtail/internal/verifrt"

	"github.com/mimecast/dtail/internal/config"
	"github.com/mimecast/dtail/internal/source"
)

func verifNoLog(d *DLog, args ...interface{}) string { return "" }

// statistics lines (they read /proc) are not part of any property
func verifNoMapr(d *DLog, table string, data map[string]interface{}) string { return "" }

// VerifLogger captures what the stdout logger would print.
type VerifLogger struct {
	Out    []byte   // everything "printed", in order
	Calls  []string // one entry per logger call (the text of that call, with its newline if any)
	Raws   []string // Raw calls only (content)
	Logs   []string // Log calls only (log lines)
	Colors bool
	Pace   func() // called before every print: how long the output sink takes
}

func (l *VerifLogger) Log(now time.Time, message string) {
	if l.Pace != nil {
		l.Pace()
	}
	l.Logs = append(l.Logs, message)
	l.Out = append(l.Out, message...)
	l.Out = append(l.Out, '\n')
	l.Calls = append(l.Calls, message+"\n")
}
func (l *VerifLogger) LogWithColors(now time.Time, message, colored string) {
	l.Out = append(l.Out, colored...)
	l.Out = append(l.Out, '\n')
	l.Calls = append(l.Calls, colored+"\n")
}
func (l *VerifLogger) Raw(now time.Time, message string) {
	if l.Pace != nil {
		l.Pace()
	}
	l.Raws = append(l.Raws, message)
	l.Out = append(l.Out, message...)
	l.Calls = append(l.Calls, message)
}
func (l *VerifLogger) RawWithColors(now time.Time, message, colored string) {
	l.Out = append(l.Out, colored...)
	l.Calls = append(l.Calls, colored)
}
func (l *VerifLogger) Start(ctx context.Context, wg *sync.WaitGroup) { wg.Done() }
func (l *VerifLogger) Flush()                                        {}
func (l *VerifLogger) Pause()                                        {}
func (l *VerifLogger) Resume()                                       {}
func (l *VerifLogger) Rotate()                                       {}
func (l *VerifLogger) SupportsColors() bool                          { return l.Colors }

// (log level "warn": what a serverless client runs with by default; natively
// Info/Debug calls therefore print nothing, like their empty stubs under the engine)

// VerifInstall installs capture loggers as dlog.Client/Server/Common for a
// process of the given kind and makes sure the config singletons exist.
func VerifInstall(process source.Source) *VerifLogger {
	if config.Client == nil {
		config.Client = &config.ClientConfig{}
	}
	if config.Server == nil {
		config.Server = &config.ServerConfig{MaxLineLength: 1024 * 1024, MaxConcurrentCats: 2, MaxConcurrentTails: 50, MaxConnections: 10}
	}
	if config.Common == nil {
		config.Common = &config.CommonConfig{}
	}
	if !verifrt.Symbolic() {
		// natively: the same host name the engine's os.Hostname model returns
		os.Setenv("DTAIL_HOSTNAME_OVERRIDE", "host")
	}
	l := &VerifLogger{}
	Client = &DLog{logger: l, sourceProcess: process, sourcePackage: source.Client, maxLevel: Warn, hostname: "host"}
	Server = &DLog{logger: l, sourceProcess: process, sourcePackage: source.Server, maxLevel: Warn, hostname: "host"}
	Common = Client
	if process == source.Server {
		Common = Server
	}
	return l
}

// VerifInstallReal installs loggers built the way Start builds them, with the
// real logger implementation of the given name (stdout, none, ...) from
// loggers.Factory; what that logger prints goes through fmt.Print/Println,
// which a harness replaces to observe the terminal.
func VerifInstallReal(process source.Source, loggerName string) {
	VerifInstallRealLevel(process, loggerName, "warn")
}

// VerifInstallRealLevel: the same with a log level (an SSH-mode client runs at "info").
func VerifInstallRealLevel(process source.Source, loggerName, level string) {
	VerifInstall(process)
	config.Common.Logger = loggerName
	config.Common.LogLevel = level
	if len(os.Args) == 0 {
		os.Args = []string{"dtail"}
	}
	Client = new(process, source.Client)
	Server = new(process, source.Server)
	Common = Client
	if process == source.Server {
		Common = Server
	}
}
