//verif:dest internal/server/handlers/zz_verif_server.go
//verif:replace (*github.com/mimecast/dtail/internal/server/handlers.readCommand).readGlob = verifReadGlob
//verif:replace (*github.com/mimecast/dtail/internal/server/handlers.readCommand).isInputFromPipe = verifNotFromPipe

package handlers

import (
	"context"

	"github.com/mimecast/dtail/internal/io/line"
	"github.com/mimecast/dtail/internal/lcontext"
	"github.com/mimecast/dtail/internal/omode"
	"github.com/mimecast/dtail/internal/regex"
	user "github.com/mimecast/dtail/internal/user/server"
)

// Harness support (overlay only): build the real server handler without SSH.

func VerifNewServerHandler(plain, quiet, serverless bool, cats, tails int) *ServerHandler {
	u := &user.User{Name: "u"}
	h := NewServerHandler(u, make(chan struct{}, cats), make(chan struct{}, tails))
	h.plain, h.quiet, h.serverless = plain, quiet, serverless
	return h
}

func (h *ServerHandler) VerifLines() chan *line.Line       { return h.lines }
func (h *ServerHandler) VerifServerMessages() chan string  { return h.serverMessages }
func (h *ServerHandler) VerifMaprMessages() chan string    { return h.maprMessages }
func (h *ServerHandler) VerifActiveCommands() int32        { return h.activeCommands }
func (h *ServerHandler) VerifCatLimiter() chan struct{}    { return h.catLimiter }
func (h *ServerHandler) VerifTailLimiter() chan struct{}   { return h.tailLimiter }
func (h *ServerHandler) VerifFlags() (bool, bool, bool)    { return h.plain, h.quiet, h.serverless }
func (h *ServerHandler) VerifHandleCommand(s string)       { h.handleCommand(s) }
func (h *ServerHandler) VerifShutdown()                    { h.shutdown() }

// VerifGlob is what a read command asks the file layer to do (captured when
// VerifCaptureGlobs is on; otherwise the real readGlob runs).
type VerifGlob struct {
	Glob string
	Re   regex.Regex
	Ltx  lcontext.LContext
	Mode omode.Mode
}

var VerifCaptureGlobs bool
var VerifGlobCh chan VerifGlob

func verifReadGlob(r *readCommand, ctx context.Context, ltx lcontext.LContext, glob string, re regex.Regex, retries int) {
	if !VerifCaptureGlobs {
		r.readGlob(ctx, ltx, glob, re, retries)
		return
	}
	VerifGlobCh <- VerifGlob{Glob: glob, Re: re, Ltx: ltx, Mode: r.mode}
}

// stdin of the process is a terminal (os.Stdin.Stat is the kernel's business)
func verifNotFromPipe(r *readCommand) bool { return false }

func VerifNewHealthHandler() *HealthHandler {
	return NewHealthHandler(&user.User{Name: "DTAIL-HEALTH"})
}

func VerifNewServerHandlerWith(catLimiter, tailLimiter chan struct{}) *ServerHandler {
	return NewServerHandler(&user.User{Name: "u"}, catLimiter, tailLimiter)
}

// VerifPending: bytes of a message that did not fit into the previous Read.
func (h *ServerHandler) VerifPending() int { return h.readBuf.Len() }

// VerifQuery: the raw text of the mapreduce query the handler runs ("" if none).
func (h *ServerHandler) VerifQuery() string {
	if h.aggregate == nil {
		return ""
	}
	return h.aggregate.VerifRawQuery()
}
