//verif:dest internal/server/handlers/zz_verif_server.go

package handlers

import (
	"github.com/mimecast/dtail/internal/io/line"
	user "github.com/mimecast/dtail/internal/user/server"
)

// Harness support (overlay only): build the real server handler without SSH.

func VerifNewServerHandler(plain, quiet, serverless bool, cats, tails int) *ServerHandler {
	u := &user.User{Name: "u"}
	h := NewServerHandler(u, make(chan struct{}, cats), make(chan struct{}, tails))
	h.plain, h.quiet, h.serverless = plain, quiet, serverless
	return h
}

func (h *ServerHandler) VerifLines() chan *line.Line       { return h.lines }
func (h *ServerHandler) VerifServerMessages() chan string  { return h.serverMessages }
func (h *ServerHandler) VerifMaprMessages() chan string    { return h.maprMessages }
func (h *ServerHandler) VerifActiveCommands() int32        { return h.activeCommands }
func (h *ServerHandler) VerifCatLimiter() chan struct{}    { return h.catLimiter }
func (h *ServerHandler) VerifTailLimiter() chan struct{}   { return h.tailLimiter }
func (h *ServerHandler) VerifFlags() (bool, bool, bool)    { return h.plain, h.quiet, h.serverless }
func (h *ServerHandler) VerifHandleCommand(s string)       { h.handleCommand(s) }
func (h *ServerHandler) VerifShutdown()                    { h.shutdown() }
