//verif:dest internal/clients/zz_verif_net.go
//verif:replace@C17d golang.org/x/crypto/ssh.Dial = verifDial
//verif:replace@C17d github.com/mimecast/dtail/internal/ssh.KeyFile = verifKeyFile
//verif:replace@C17d github.com/mimecast/dtail/internal/ssh.Agent = verifAgent
//verif:replace@C17d os.Stat = verifNoFile
//verif:replace@C17d github.com/mimecast/dtail/internal/ssh/client.GeneratePrivatePublicKeyPairIfNotExists = verifNoKeyPair
//verif:replace@C17d math/rand.New = verifRandNew
//verif:replace@C17d math/rand.NewSource = verifRandSource
//verif:replace@C17d (*math/rand.Rand).Intn = verifIntn
//verif:replace@C16d os.Stat = verifNoFile
//verif:replace@C05g os.Stat = verifNoFile
//verif:replace@C16d math/rand.New = verifRandNew
//verif:replace@C05g math/rand.New = verifRandNew
//verif:replace@C16d math/rand.NewSource = verifRandSource
//verif:replace@C05g math/rand.NewSource = verifRandSource
//verif:replace@C16d (*math/rand.Rand).Intn = verifIntn
//verif:replace@C05g (*math/rand.Rand).Intn = verifIntn
//verif:replace@C15e github.com/mimecast/dtail/internal/ssh.KeyFile = verifKeyFile
//verif:replace@C15e github.com/mimecast/dtail/internal/ssh.Agent = verifAgent
//verif:replace@C15e math/rand.New = verifRandNew
//verif:replace@C15e math/rand.NewSource = verifRandSource
//verif:replace@C15e (*math/rand.Rand).Intn = verifIntn
//verif:replace@C01h github.com/mimecast/dtail/internal/ssh.KeyFile = verifKeyFile
//verif:replace@C01h github.com/mimecast/dtail/internal/ssh.Agent = verifAgent
//verif:replace@C01h os.Stat = verifNoFile
//verif:replace@C01h math/rand.New = verifRandNew
//verif:replace@C01h math/rand.NewSource = verifRandSource
//verif:replace@C01h (*math/rand.Rand).Intn = verifIntn
//verif:replace@C18f golang.org/x/crypto/ssh.Dial = verifDial
//verif:replace@C18f github.com/mimecast/dtail/internal/ssh.KeyFile = verifKeyFile
//verif:replace@C18f github.com/mimecast/dtail/internal/ssh.Agent = verifAgent
//verif:replace@C18f os.Stat = verifStatMemfs
//verif:replace@C18f math/rand.New = verifRandNew
//verif:replace@C18f math/rand.NewSource = verifRandSource
//verif:replace@C18f (*math/rand.Rand).Intn = verifIntn
//verif:replace@C18d golang.org/x/crypto/ssh.Dial = verifDial
//verif:replace@C18d github.com/mimecast/dtail/internal/ssh.KeyFile = verifKeyFile
//verif:replace@C18d github.com/mimecast/dtail/internal/ssh.Agent = verifAgent
//verif:replace@C18d os.Stat = verifNoFile
//verif:replace@C18d math/rand.New = verifRandNew
//verif:replace@C18d math/rand.NewSource = verifRandSource
//verif:replace@C18d (*math/rand.Rand).Intn = verifIntn

package clients

// Stand-ins for the network and key material below the client (harness
// support, overlay only): ssh.Dial presents a host key to the configured
// HostKeyCallback and records who was dialled and who was talked to.

import (
	"errors"
	"io/fs"
	"time"

	"github.com/mimecast/dtail/internal/verifh/memfs"
	"math/rand"
	"net"
	"os"

	sshclient "github.com/mimecast/dtail/internal/ssh/client"

	gossh "golang.org/x/crypto/ssh"
)

type verifAddr string

func (a verifAddr) Network() string { return "tcp" }
func (a verifAddr) String() string  { return string(a) }

// VerifDialled: every address handed to ssh.Dial, in order; VerifTalkedTo: the
// addresses whose host key the configured callback accepted (the handshake
// completed: the session would start now).
var VerifDialled []string
var VerifTalkedTo = map[string]int{}
var VerifKeysRead []string

func verifNetReset() {
	VerifDialled, VerifTalkedTo, VerifKeysRead = nil, map[string]int{}, nil
}

func verifDial(network, addr string, config *gossh.ClientConfig) (*gossh.Client, error) {
	VerifDialled = append(VerifDialled, addr)
	var remote net.Addr = verifAddr(addr)
	if err := config.HostKeyCallback(addr, remote, sshclient.VerifC17Key('1')); err != nil {
		return nil, err
	}
	VerifTalkedTo[addr]++
	return nil, errors.New("ssh: connection lost")
}

func verifKeyFile(keyFile string) (gossh.AuthMethod, error) {
	VerifKeysRead = append(VerifKeysRead, keyFile)
	if keyFile == "/home/u/key" || keyFile == "/home/u/.ssh/id_rsa" || keyFile == "./id_rsa" {
		return gossh.Password("key"), nil
	}
	return nil, errors.New("open " + keyFile + ": no such file or directory")
}
// (the integration test mode generates an RSA key pair: not the subject)
func verifNoKeyPair(keyPath string, bitSize int) {}
func verifAgent() (gossh.AuthMethod, error)          { return nil, errors.New("no agent") }
func verifNoFile(name string) (os.FileInfo, error)    { return nil, errors.New("no such file") }
type verifFileInfo struct{ name string }

func (i verifFileInfo) Name() string       { return i.name }
func (i verifFileInfo) Size() int64        { return 1 }
func (i verifFileInfo) Mode() fs.FileMode  { return 0o644 }
func (i verifFileInfo) ModTime() time.Time { return time.Time{} }
func (i verifFileInfo) IsDir() bool        { return false }
func (i verifFileInfo) Sys() interface{}   { return nil }

// verifStatMemfs: the files of the in-memory file system exist (regular files), nothing else does
func verifStatMemfs(name string) (os.FileInfo, error) {
	if _, ok := memfs.FS[name]; ok {
		return verifFileInfo{name}, nil
	}
	return nil, &fs.PathError{Op: "stat", Path: name, Err: fs.ErrNotExist}
}
func verifRandNew(src rand.Source) *rand.Rand         { return new(rand.Rand) }
func verifRandSource(seed int64) rand.Source          { return nil }
func verifIntn(r *rand.Rand, n int) int               { return 0 }
