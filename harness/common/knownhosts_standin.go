//verif:dest internal/ssh/client/zz_verif_knownhosts.go
//verif:replace golang.org/x/crypto/ssh/knownhosts.New = c17KnownHosts

package client

// Stand-in for the x/crypto known_hosts matcher (harness support, overlay
// only): the verdict per host is set by the harness.

import (
	"errors"
	"net"

	"golang.org/x/crypto/ssh"
)

type c17Key struct{ id byte }

func (k c17Key) Type() string                                { return "toy" }
func (k c17Key) Marshal() []byte                             { return []byte{'K', k.id} }
func (k c17Key) Verify(data []byte, sig *ssh.Signature) error { return nil }

type c17Addr string

func (a c17Addr) Network() string { return "tcp" }
func (a c17Addr) String() string  { return string(a) }

// verdict of the known_hosts matcher per host: 0 known, 1 unknown, 2 key changed
var c17Verdict = map[string]int{}

func c17KnownHosts(files ...string) (ssh.HostKeyCallback, error) {
	return func(hostname string, remote net.Addr, key ssh.PublicKey) error {
		switch c17Verdict[hostname] {
		case 0:
			return nil
		case 1:
			return errors.New("knownhosts: key is unknown")
		default:
			return errors.New("knownhosts: key mismatch")
		}
	}, nil
}

// for harnesses of other packages: the known_hosts matcher's verdict per host (0 known, 1 unknown, 2 changed)
func VerifC17SetVerdict(host string, v int) { c17Verdict[host] = v }
func VerifC17ResetVerdicts()                { c17Verdict = map[string]int{} }

// VerifC17Key is a host key for dial stand-ins.
func VerifC17Key(id byte) ssh.PublicKey { return c17Key{id} }

