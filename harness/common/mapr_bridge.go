//verif:dest internal/mapr/zz_verif_mapr.go

package mapr

// VerifSets exposes the aggregate sets of a group set (overlay only).
func (g *GroupSet) VerifSets() map[string]*AggregateSet { return g.sets }

// VerifTakeSemaphore / VerifReleaseSemaphore: another server's merge is in flight.
func (g *GlobalGroupSet) VerifTakeSemaphore()    { g.semaphore <- struct{}{} }
func (g *GlobalGroupSet) VerifReleaseSemaphore() { <-g.semaphore }
