//verif:dest internal/mapr/zz_verif_mapr.go

package mapr

// VerifSets exposes the aggregate sets of a group set (overlay only).
func (g *GroupSet) VerifSets() map[string]*AggregateSet { return g.sets }
