//verif:dest internal/ssh/client/zz_verif_c17.go

package client

import (
	"context"
	"strings"
	"sync"
	"time"

	"github.com/mimecast/dtail/internal/io/dlog"
	"github.com/mimecast/dtail/internal/source"
	"github.com/mimecast/dtail/internal/verifh/memfs"
	"github.com/mimecast/dtail/internal/verifrt"

)

const c17Path = "/home/u/.ssh/known_hosts"

func c17New(trustAll bool) KnownHostsCallback {
	memfs.Reset()
	throttle := make(chan struct{}, 4)
	for i := 0; i < 4; i++ {
		throttle <- struct{}{}
	}
	cb, err := NewKnownHostsCallback(c17Path, trustAll, throttle)
	verifrt.Assert(err == nil, "NewKnownHostsCallback")
	return cb.(KnownHostsCallback)
}

var c17Answers = []string{"y\n", "yes\n", "a\n", "all\n", "n\n", "no\n", "d\nn\n", "x\nyes\n", "d\ny\n", "\nno\n"}

// VerifC17aDecision: h hosts contacted at once, each known / unknown / changed
// to the known_hosts matcher; trust-all flag and the user's answer symbolic.
func VerifC17aDecision(h int) {
	dlog.VerifInstall(source.Client)
	trustAll := verifrt.Bool("trustall")
	c := c17New(trustAll)
	ans := verifrt.Choose("answer", len(c17Answers))
	memfs.Stdin = []byte(c17Answers[ans])
	accepts := ans <= 3 || ans == 7 || ans == 8
	cb := c.Wrap()
	ctx, cancel := context.WithCancel(context.Background())
	go c.PromptAddHosts(ctx)

	servers := []string{"alpha:2222", "beta:2222", "gamma:2222"}[:h]
	results := make([]error, h)
	var wg sync.WaitGroup
	for i, s := range servers {
		c17Verdict[s] = verifrt.Choose("verdict", 3)
		wg.Add(1)
		go func(i int, s string) {
			defer wg.Done()
			results[i] = cb(s, c17Addr("10.0.0."+string(rune('1'+i))+":2222"), c17Key{byte('1' + i)})
		}(i, s)
	}
	done := make(chan struct{})
	go func() { wg.Wait(); close(done) }()
	select {
	case <-done:
	case <-time.After(30 * time.Second):
		verifrt.Assert(false, "a host key decision never completed")
	}
	cancel()
	for i, s := range servers {
		known := c17Verdict[s] == 0
		want := known || trustAll || accepts
		verifrt.Assert((results[i] == nil) == want, "the client proceeds with a server exactly if its key is known, the user approved it, or trust-all was requested")
		if results[i] != nil {
			verifrt.Assert(c.Untrusted(s), "a refused host is not marked untrusted")
			verifrt.Reach("refused")
		} else {
			verifrt.Assert(!c.Untrusted(s), "a trusted host is marked untrusted")
		}
		if !known && results[i] == nil {
			verifrt.Reach("newly-trusted")
			// its two entries are recorded
			data := string(memfs.FS[c17Path].Data)
			verifrt.Assert(strings.Contains(data, "["+strings.Split(s, ":")[0]+"]:2222 toy "), "a newly trusted host was not recorded")
		}
	}
	verifrt.Reach("decided")
}

// VerifC17bRewrite: trustHosts on an old file of n lines (first field and
// rest symbolic) for k newly trusted hosts with symbolic names.
func VerifC17bRewrite(n, k int) {
	dlog.VerifInstall(source.Client)
	c := c17New(false)
	// old file
	var old []byte
	var oldLines []string
	for i := 0; i < n; i++ {
		var line string
		switch verifrt.Choose("form", 5) {
		case 0:
			line = "h" + verifrt.StringIn("f", 1, "ab,|#[]:.1") + " toy S0s="
		case 1:
			line = "#" + verifrt.StringIn("c", 2, " ab#|1")
		case 2:
			line = "|1|c2FsdA==|aGFzaA== toy S0s="
		case 3:
			line = "h" + verifrt.StringIn("f", 1, "ab") + ",[1.2.3.4]:2222 toy S0s="
		default:
			line = verifrt.StringIn("raw", 3, " ab,:|#\r")
		}
		oldLines = append(oldLines, line)
		old = append(old, line...)
		if i < n-1 || verifrt.Bool("final-newline") {
			old = append(old, '\n')
		}
	}
	memfs.FS[c17Path] = &memfs.File{Data: old}
	// newly trusted hosts
	var hosts []unknownHost
	var wantNew []string
	addresses := map[string]bool{}
	for i := 0; i < k; i++ {
		name := "h" + verifrt.StringIn("n", 1, "abc")
		key := c17Key{byte('1' + i)}
		remote := c17Addr("1.2.3." + string(rune('4'+i)) + ":22")
		u := unknownHost{server: name + ":22", remote: remote, key: key,
			hostLine: name + " toy " + "S" + string([]byte{'0' + byte(i)}) + "E=", ipLine: "1.2.3." + string(rune('4'+i)) + " toy X=",
			responseCh: make(chan response, 1)}
		hosts = append(hosts, u)
		wantNew = append(wantNew, u.hostLine, u.ipLine)
		addresses[name] = true // knownhosts.Normalize drops the default port 22
		addresses["1.2.3."+string(rune('4'+i))] = true
	}
	c.trustHosts(hosts)

	_, tmpLeft := memfs.FS[c17Path+".tmp"]
	verifrt.Assert(!tmpLeft && len(memfs.Renames) == 1, "the known_hosts file was not replaced by rename")
	got := strings.Split(string(memfs.FS[c17Path].Data), "\n")
	verifrt.Assert(len(got) > 0 && got[len(got)-1] == "", "the new file does not end with a newline")
	got = got[:len(got)-1]
	// reference: new entries, then every old line (bufio.Scanner line semantics:
	// split at \n, one trailing \r dropped, empty last line ignored) whose first field is not replaced
	var want []string
	want = append(want, wantNew...)
	for i, l := range c17ScanLines(string(old)) {
		_ = i
		first := strings.SplitN(l, " ", 2)[0]
		if !addresses[first] {
			want = append(want, l)
		}
	}
	verifrt.Assert(len(got) == len(want), "an unrelated known_hosts entry was lost or an entry duplicated")
	for i := range want {
		if i < len(got) {
			verifrt.Assert(got[i] == want[i], "a known_hosts entry was altered or reordered")
		}
	}
	for _, u := range hosts {
		verifrt.Assert(len(u.responseCh) == 1, "a trusted host was not answered")
	}
	verifrt.Reach("rewritten")
	if len(want) > len(wantNew) {
		verifrt.Reach("old-entries-kept")
	}
	if len(want) < len(wantNew)+len(c17ScanLines(string(old))) {
		verifrt.Reach("entry-replaced")
	}
}

func c17ScanLines(s string) []string {
	var out []string
	for len(s) > 0 {
		i := strings.IndexByte(s, '\n')
		var l string
		if i < 0 {
			l, s = s, ""
		} else {
			l, s = s[:i], s[i+1:]
		}
		if len(l) > 0 && l[len(l)-1] == '\r' {
			l = l[:len(l)-1]
		}
		out = append(out, l)
	}
	return out
}

// VerifC17fTwoBatches: an unknown host is decided by the user (yes / all / no),
// and some seconds later - a reconnect, a server slower than the others, more
// servers than the connection throttle lets through at once - a second unknown
// host turns up: it is trusted only if the user said "all" the first time or
// approves it now; "yes" the first time covers the first batch only.
func VerifC17fTwoBatches() {
	dlog.VerifInstall(source.Client)
	c := c17New(false)
	firsts := []string{"yes\n", "y\n", "all\n", "a\n", "no\n", "n\n"}
	seconds := []string{"no\n", "yes\n", "n\n"}
	f := verifrt.Choose("first-answer", len(firsts))
	s := verifrt.Choose("second-answer", len(seconds))
	memfs.Stdin = []byte(firsts[f] + seconds[s])
	cb := c.Wrap()
	ctx, cancel := context.WithCancel(context.Background())
	go c.PromptAddHosts(ctx)
	c17Verdict["alpha:2222"] = 1
	c17Verdict["beta:2222"] = 1 + verifrt.Choose("second-host-unknown-or-changed", 2)
	ask := func(host string, id byte) (err error, decided bool) {
		done := make(chan struct{})
		go func() {
			err = cb(host, c17Addr("10.0.0."+string(rune(id))+":2222"), c17Key{id})
			close(done)
		}()
		select {
		case <-done:
			return err, true
		case <-time.After(30 * time.Second):
			return nil, false
		}
	}
	e1, ok1 := ask("alpha:2222", '1')
	verifrt.Assert(ok1, "a host key decision never completed")
	verifrt.Assert((e1 == nil) == (f <= 3), "the first host is accepted exactly if the user approved it")
	verifrt.Sleep(5 * time.Second)
	e2, ok2 := ask("beta:2222", '2')
	verifrt.Assert(ok2, "a host key decision never completed")
	all := f == 2 || f == 3
	want := all || s == 1
	if e2 == nil && !want {
		verifrt.Assert(false, "a host the user did not approve is trusted because an earlier host was approved with yes")
	}
	verifrt.Assert((e2 == nil) == want, "the second host is accepted exactly if the user said all before or approves it now")
	cancel()
	verifrt.Reach("two-batches")
}
