//verif:dest internal/ssh/client/zz_verif_c17e.go

package client

import (
	"context"
	"time"

	"github.com/mimecast/dtail/internal/io/dlog"
	"github.com/mimecast/dtail/internal/source"
	"github.com/mimecast/dtail/internal/verifh/memfs"
	"github.com/mimecast/dtail/internal/verifrt"
)

// VerifC17eShutdown: a host whose key is unknown or changed is being contacted
// (its handshake waits for the user's decision) when the client's context is
// cancelled at a symbolic moment — before the prompt appears, while it is
// shown, or later — the user answering no when asked: the handshake is
// never approved by the shutdown itself.
func VerifC17eShutdown() {
	dlog.VerifInstall(source.Client)
	c := c17New(false)
	c17Verdict["alpha:2222"] = 1 + verifrt.Choose("verdict", 2) // unknown or changed
	memfs.Stdin = []byte("n\n") // (a prompt without any answer spins: see section 5 of DESIGN.md)
	cb := c.Wrap()
	ctx, cancel := context.WithCancel(context.Background())
	go c.PromptAddHosts(ctx)
	res := make(chan error, 1)
	go func() {
		res <- cb("alpha:2222", c17Addr("10.0.0.1:2222"), c17Key{'1'})
	}()
	at := []time.Duration{100 * time.Millisecond, 1900 * time.Millisecond, 2500 * time.Millisecond, 10 * time.Second}[verifrt.Choose("cancelled-at", 4)]
	verifrt.Sleep(at)
	cancel()
	select {
	case err := <-res:
		verifrt.Assert(err != nil, "the handshake of a host the user never approved was let through when the client shut down")
		verifrt.Reach("refused")
	case <-time.After(time.Minute):
		// still waiting: the connection attempt runs into the SSH timeout
		verifrt.Reach("still-waiting")
	}
}
