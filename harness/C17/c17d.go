//verif:dest internal/clients/zz_verif_c17d.go

package clients

import (
	"context"
	"os"
	"time"

	"github.com/mimecast/dtail/internal/config"
	"github.com/mimecast/dtail/internal/io/dlog"
	"github.com/mimecast/dtail/internal/omode"
	"github.com/mimecast/dtail/internal/source"
	sshclient "github.com/mimecast/dtail/internal/ssh/client"
	"github.com/mimecast/dtail/internal/verifh/memfs"
	"github.com/mimecast/dtail/internal/verifrt"
)

var c17dAnswers = []string{"n\n", "y\n"}

// VerifC17dClient: a whole client (NewGrepClient: init, InitSSHAuthMethods,
// the ssh client configuration of every connection) contacting one server
// whose host key is known / unknown / changed, with or without --trustAllHosts,
// with or without an explicit --key file, the user answering no or yes
// at the prompt: the server is talked to (its host key accepted by
// the callback installed in the connection's ssh configuration) only if the
// key is known, or all hosts are trusted, or the user said yes.
func VerifC17dClient() {
	dlog.VerifInstall(source.Client)
	config.Common = &config.CommonConfig{SSHPort: 2222}
	memfs.Reset()
	verifNetReset()
	os.Setenv("HOME", "/home/u")
	sshclient.VerifC17ResetVerdicts()
	verdict := verifrt.Choose("host-key", 3) // 0 known, 1 unknown, 2 changed
	sshclient.VerifC17SetVerdict("alpha:2222", verdict)
	ans := verifrt.Choose("answer", len(c17dAnswers))
	memfs.Stdin = []byte(c17dAnswers[ans])

	var args config.Args
	args.ServersStr = "alpha"
	args.UserName = "u"
	args.What = "/var/log/x.log"
	args.RegexStr = "x"
	args.Mode = omode.GrepClient
	args.ConnectionsPerCPU = 1
	args.Quiet = true
	args.TrustAllHosts = verifrt.Bool("trust-all-hosts")
	// the switch the integration tests run under (known hosts file and key in the
	// working directory): the trust decision is the same
	if verifrt.Bool("integration-test-run-mode") {
		os.Setenv("DTAIL_INTEGRATION_TEST_RUN_MODE", "yes")
		verifrt.Reach("test-run-mode")
	} else {
		os.Unsetenv("DTAIL_INTEGRATION_TEST_RUN_MODE")
	}
	if verifrt.Bool("key-file-given") {
		args.SSHPrivateKeyFilePath = "/home/u/key"
		verifrt.Reach("with-key-file")
	}
	c, err := NewGrepClient(args)
	verifrt.Assert(err == nil && c != nil, "NewGrepClient failed")
	ctx, cancel := context.WithCancel(context.Background())
	done := make(chan struct{})
	go func() {
		c.Start(ctx, nil)
		close(done)
	}()
	select {
	case <-done:
	case <-time.After(30 * time.Second):
	}
	cancel()
	verifrt.Assert(len(VerifDialled) >= 1 && VerifDialled[0] == "alpha:2222", "the listed server was not contacted at its address")
	talked := VerifTalkedTo["alpha:2222"] > 0
	allowed := verdict == 0 || args.TrustAllHosts || ans == 1
	if talked {
		verifrt.Assert(allowed, "a server with an unknown or changed host key was talked to without trust (no --trustAllHosts, no yes at the prompt)")
		verifrt.Reach("talked")
	} else {
		verifrt.Assert(verdict != 0, "a server with a known host key was refused")
		verifrt.Reach("refused")
	}
}

// VerifC17dTwoPorts: two servers on one host, different ports, presenting the
// same host key; the first is in known_hosts, the second is unknown or listed
// with another key; the user answers no: trust is per [host]:port — the second
// server is not talked to because the first one was verified.
func VerifC17dTwoPorts() {
	dlog.VerifInstall(source.Client)
	config.Common = &config.CommonConfig{SSHPort: 2222}
	memfs.Reset()
	verifNetReset()
	os.Setenv("HOME", "/home/u")
	sshclient.VerifC17ResetVerdicts()
	sshclient.VerifC17SetVerdict("alpha:2222", 0)
	verdict := 1 + verifrt.Choose("second-server", 2) // unknown or changed
	sshclient.VerifC17SetVerdict("alpha:2223", verdict)
	memfs.Stdin = []byte("n\n")
	var args config.Args
	args.ServersStr = "alpha:2222,alpha:2223"
	args.UserName = "u"
	args.What = "/var/log/x.log"
	args.RegexStr = "x"
	args.Mode = omode.GrepClient
	args.ConnectionsPerCPU = 1
	args.Quiet = true
	c, err := NewGrepClient(args)
	verifrt.Assert(err == nil && c != nil, "NewGrepClient failed")
	ctx, cancel := context.WithCancel(context.Background())
	done := make(chan struct{})
	go func() {
		c.Start(ctx, nil)
		close(done)
	}()
	select {
	case <-done:
	case <-time.After(30 * time.Second):
	}
	cancel()
	verifrt.Assert(VerifTalkedTo["alpha:2222"] > 0, "the server whose key is known was refused")
	verifrt.Assert(VerifTalkedTo["alpha:2223"] == 0, "a server on another port of a verified host was talked to although its own key is not trusted")
	verifrt.Reach("second-refused")
}
