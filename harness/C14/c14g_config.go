//verif:dest internal/config/zz_verif_c14g.go
//verif:replace@C14g encoding/json.Unmarshal = c14gUnmarshal

package config

// Stand-in for the JSON decoder (reflection): the configuration file's
// connection and cat limits are what the harness says the file contains.
var VerifC14gMaxConnections, VerifC14gMaxCats, VerifC14gMaxTails int

func c14gUnmarshal(data []byte, v interface{}) error {
	in := v.(*initializer)
	in.Server.MaxConnections = VerifC14gMaxConnections
	in.Server.MaxConcurrentCats = VerifC14gMaxCats
	in.Server.MaxConcurrentTails = VerifC14gMaxTails
	return nil
}
