//verif:dest internal/server/zz_verif_c14.go
//verif:replace golang.org/x/crypto/ssh.NewServerConn = c14NewServerConn
//verif:replace golang.org/x/crypto/ssh.DiscardRequests = c14Discard
//verif:replace golang.org/x/crypto/ssh.Unmarshal = c14Unmarshal

package server

import (
	"context"
	"errors"
	"io"
	"net"
	"time"

	"github.com/mimecast/dtail/internal/config"
	"github.com/mimecast/dtail/internal/io/dlog"
	"github.com/mimecast/dtail/internal/source"
	"github.com/mimecast/dtail/internal/verifrt"

	gossh "golang.org/x/crypto/ssh"
)

// ---- gossh stand-ins behind the real interfaces ----

type c14Conn struct {
	id      int
	kind    int
	closed  chan struct{}
	isClosed bool
	chans   chan gossh.NewChannel
}

func (c *c14Conn) User() string          { return "alice" }
func (c *c14Conn) SessionID() []byte     { return nil }
func (c *c14Conn) ClientVersion() []byte { return nil }
func (c *c14Conn) ServerVersion() []byte { return nil }
func (c *c14Conn) RemoteAddr() net.Addr  { return c14Addr("10.0.0.1:5000") }
func (c *c14Conn) LocalAddr() net.Addr   { return c14Addr("0.0.0.0:2222") }
func (c *c14Conn) SendRequest(name string, wantReply bool, payload []byte) (bool, []byte, error) {
	return false, nil, nil
}
func (c *c14Conn) OpenChannel(name string, data []byte) (gossh.Channel, <-chan *gossh.Request, error) {
	return nil, nil, errors.New("not supported")
}
func (c *c14Conn) Close() error {
	if !c.isClosed {
		c.isClosed = true
		close(c.closed)
	}
	return nil
}
func (c *c14Conn) Wait() error { <-c.closed; return io.EOF }

// net.Conn side (only handed to the NewServerConn stub)
func (c *c14Conn) Read(b []byte) (int, error)         { return 0, io.EOF }
func (c *c14Conn) Write(b []byte) (int, error)        { return len(b), nil }
func (c *c14Conn) SetDeadline(t time.Time) error      { return nil }
func (c *c14Conn) SetReadDeadline(t time.Time) error  { return nil }
func (c *c14Conn) SetWriteDeadline(t time.Time) error { return nil }

type c14Addr string

func (a c14Addr) Network() string { return "tcp" }
func (a c14Addr) String() string  { return string(a) }

type c14NewChan struct {
	conn  *c14Conn
	ctype string
	reqs  chan *gossh.Request
	ch    *c14Channel
}

func (n *c14NewChan) Accept() (gossh.Channel, <-chan *gossh.Request, error) { return n.ch, n.reqs, nil }
func (n *c14NewChan) Reject(reason gossh.RejectionReason, message string) error { return nil }
func (n *c14NewChan) ChannelType() string { return n.ctype }
func (n *c14NewChan) ExtraData() []byte   { return nil }

type c14Channel struct{ conn *c14Conn }

func (c *c14Channel) Read(data []byte) (int, error)  { <-c.conn.closed; return 0, io.EOF }
func (c *c14Channel) Write(data []byte) (int, error) { return len(data), nil }
func (c *c14Channel) Close() error                   { return nil }
func (c *c14Channel) CloseWrite() error              { return nil }
func (c *c14Channel) SendRequest(name string, wantReply bool, payload []byte) (bool, error) {
	return false, nil
}
func (c *c14Channel) Stderr() io.ReadWriter { return nil }

func c14NewServerConn(c net.Conn, cfg *gossh.ServerConfig) (*gossh.ServerConn, <-chan gossh.NewChannel, <-chan *gossh.Request, error) {
	conn := c.(*c14Conn)
	if conn.kind == 0 {
		return nil, nil, nil, errors.New("ssh: handshake failed: unable to authenticate")
	}
	c14Authenticated[conn.id] = true
	sc := &gossh.ServerConn{Conn: conn}
	return sc, conn.chans, make(chan *gossh.Request), nil
}
func c14Discard(in <-chan *gossh.Request) {}
func c14Unmarshal(data []byte, out interface{}) error { return nil }

type c14Listener struct {
	incoming chan net.Conn
}

func (l *c14Listener) Accept() (net.Conn, error) {
	c, ok := <-l.incoming
	if !ok {
		return nil, errors.New("listener closed")
	}
	return c, nil
}
func (l *c14Listener) Close() error   { return nil }
func (l *c14Listener) Addr() net.Addr { return c14Addr("0.0.0.0:2222") }

var c14Authenticated map[int]bool

// connection kinds
const (
	c14AuthFails  = iota // handshake fails
	c14NoChannel         // authenticates, opens no channel
	c14OtherChan         // opens a non-session channel
	c14NoRequest         // session channel, no request
	c14OneShell          // session channel, one shell request
	c14TwoShells         // session channel, two shell requests
	c14BadRequest        // session channel, unknown request type
	c14Kinds
)

func c14Shells(kind int) int {
	switch kind {
	case c14OneShell:
		return 1
	case c14TwoShells:
		return 2
	}
	return 0
}

// drive plays the client side of connection c up to its idle state.
func c14Drive(c *c14Conn) {
	switch c.kind {
	case c14AuthFails, c14NoChannel:
		return
	}
	nc := &c14NewChan{conn: c, ctype: "session", reqs: make(chan *gossh.Request, 4), ch: &c14Channel{c}}
	if c.kind == c14OtherChan {
		nc.ctype = "direct-tcpip"
	}
	c.chans <- nc
	switch c.kind {
	case c14OneShell:
		nc.reqs <- &gossh.Request{Type: "shell"}
	case c14TwoShells:
		nc.reqs <- &gossh.Request{Type: "shell"}
		nc.reqs <- &gossh.Request{Type: "shell"}
	case c14BadRequest:
		nc.reqs <- &gossh.Request{Type: "exec"}
	}
}

// VerifC14History: q connections of symbolic kinds arrive one after another;
// each ends before the next arrives or stays open; finally all end.
func VerifC14History(q, max int) {
	dlog.VerifInstall(source.Server)
	config.Server.MaxConnections = max
	config.Server.Permissions = config.Permissions{Default: []string{"^/.*$"}}
	c14Authenticated = map[int]bool{}
	s := &Server{catLimiter: make(chan struct{}, 2), tailLimiter: make(chan struct{}, 2), sshServerConfig: &gossh.ServerConfig{}}
	ctx, cancel := context.WithCancel(context.Background())
	l := &c14Listener{incoming: make(chan net.Conn)}
	go s.listenerLoop(ctx, l)

	var conns []*c14Conn
	open := 0        // connections actually open (authenticated, not ended)
	faulty := 0      // what the known findings make of the counter
	leak, double := false, false
	settle := func() { verifrt.Sleep(3 * time.Second) }
	end := func(c *c14Conn) {
		if c.isClosed {
			return
		}
		c.Close()
		close(c.chans)
		settle()
		if c14Authenticated[c.id] {
			open--
			faulty -= c14Shells(c.kind)
			if c14Shells(c.kind) == 0 {
				leak = true
			}
			if c14Shells(c.kind) == 2 {
				double = true
			}
		}
	}
	check := func(when string) {
		got := s.stats.currentConnections
		if got == open {
			return
		}
		// known: the slot is given back by the shell goroutine only (no shell: leak; two shells: twice)
		if leak {
			verifrt.Finding("C14-KF1", got == faulty)
		}
		if double {
			verifrt.Finding("C14-KF2", got == faulty)
		}
		if !leak && !double {
			verifrt.Assert(false, "the reported number of open connections differs from the number actually open ("+when+")")
		}
	}
	for i := 0; i < q; i++ {
		c := &c14Conn{id: i, kind: verifrt.Choose("kind", c14Kinds), closed: make(chan struct{}), chans: make(chan gossh.NewChannel, 2)}
		conns = append(conns, c)
		reported := s.stats.currentConnections
		l.incoming <- c
		settle()
		admitted := c14Authenticated[c.id] || c.kind == c14AuthFails && reported < max
		if reported >= max {
			verifrt.Assert(!c14Authenticated[c.id], "a connection was served beyond MaxConnections")
		} else if c.kind != c14AuthFails {
			verifrt.Assert(c14Authenticated[c.id], "a connection was refused although fewer than MaxConnections are open")
		}
		_ = admitted
		if c14Authenticated[c.id] {
			open++
			faulty++
			c14Drive(c)
			settle()
			if c.isClosed { // the server ended it (unknown request)
				close(c.chans)
				open--
				faulty -= c14Shells(c.kind)
				if c14Shells(c.kind) == 0 {
					leak = true
				}
			}
		}
		verifrt.Assert(open <= max, "more than MaxConnections served at once")
		check("after arrival")
		if verifrt.Bool("ends-early") {
			end(c)
			check("after an early end")
		}
	}
	for _, c := range conns {
		end(c)
	}
	check("after all connections ended")
	verifrt.Assert(s.stats.currentConnections >= 0 || double, "negative connection count")
	if open == 0 && s.stats.currentConnections == 0 {
		verifrt.Reach("all-slots-free")
	}
	cancel()
	verifrt.Reach("done")
}
