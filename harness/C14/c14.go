//verif:dest internal/server/zz_verif_c14.go

package server

import (
	"context"
	"net"
	"time"

	"github.com/mimecast/dtail/internal/config"
	"github.com/mimecast/dtail/internal/io/dlog"
	"github.com/mimecast/dtail/internal/source"
	"github.com/mimecast/dtail/internal/verifrt"

	gossh "golang.org/x/crypto/ssh"
)

// connection kinds
const (
	c14AuthFails  = iota // handshake fails
	c14NoChannel         // authenticates, opens no channel
	c14OtherChan         // opens a non-session channel
	c14NoRequest         // session channel, no request
	c14OneShell          // session channel, one shell request
	c14TwoShells         // session channel, two shell requests
	c14BadRequest        // session channel, unknown request type
	c14Kinds
	c14Chatty = c14Kinds // (C14d only) 17 connection-wide keepalive requests, session channel, a shell request and 17 further shell requests
)

func c14Shells(kind int) int {
	switch kind {
	case c14OneShell:
		return 1
	case c14TwoShells:
		return 2
	case c14Chatty:
		return 18
	}
	return 0
}

// drive plays the client side of connection c up to its idle state.
func c14Drive(c *c14Conn) {
	switch c.kind {
	case c14AuthFails:
		return
	case c14NoChannel:
		if c.waitDone != nil {
			c14StartMux(c, nil, 0, nil)
		}
		return
	}
	nc := &c14NewChan{conn: c, ctype: "session", reqs: make(chan *gossh.Request, c14ChanSize), ch: &c14Channel{c}}
	if c.kind == c14OtherChan {
		nc.ctype = "direct-tcpip"
	}
	var reqs []*gossh.Request
	globals := 0
	switch c.kind {
	case c14OneShell:
		reqs = append(reqs, &gossh.Request{Type: "shell"})
	case c14TwoShells:
		reqs = append(reqs, &gossh.Request{Type: "shell"}, &gossh.Request{Type: "shell"})
	case c14BadRequest:
		reqs = append(reqs, &gossh.Request{Type: "exec"})
	case c14Chatty:
		globals = c14ChanSize + 1
		for i := 0; i < c14ChanSize+2; i++ {
			reqs = append(reqs, &gossh.Request{Type: "shell"})
		}
	}
	if c.waitDone != nil {
		c14StartMux(c, nc, globals, reqs)
		return
	}
	c.chans <- nc
	for _, r := range reqs {
		nc.reqs <- r
	}
}

// VerifC14History: q connections of symbolic kinds arrive one after another;
// each ends before the next arrives or stays open; finally all end.
func VerifC14History(q, max int) {
	dlog.VerifInstall(source.Server)
	config.Server.MaxConnections = max
	// the server's own background jobs (they connect like any client and get no extra slots)
	config.Server.Schedule, config.Server.Continuous = nil, nil
	switch verifrt.Choose("background-jobs", 3) {
	case 1:
		var j config.Scheduled
		j.Name, j.Enable = "nightly", true
		config.Server.Schedule = []config.Scheduled{j}
		verifrt.Reach("with-jobs")
	case 2:
		var j config.Continuous
		j.Name, j.Enable = "cont", true
		var d config.Scheduled
		d.Name, d.Enable = "off", false
		config.Server.Continuous = []config.Continuous{j}
		config.Server.Schedule = []config.Scheduled{d}
	}
	config.Server.Permissions = config.Permissions{Default: []string{"^/.*$"}}
	c14Authenticated = map[int]bool{}
	s := &Server{catLimiter: make(chan struct{}, 2), tailLimiter: make(chan struct{}, 2), sshServerConfig: &gossh.ServerConfig{}}
	ctx, cancel := context.WithCancel(context.Background())
	l := &c14Listener{incoming: make(chan net.Conn)}
	go s.listenerLoop(ctx, l)

	var conns []*c14Conn
	open := 0        // connections actually open (authenticated, not ended)
	faulty := 0      // what the known findings make of the counter
	leak, double := false, false
	settle := func() { verifrt.Sleep(3 * time.Second) }
	end := func(c *c14Conn) {
		if c.isClosed {
			return
		}
		c.Close()
		settle()
		if c14Authenticated[c.id] {
			open--
			faulty -= c14Shells(c.kind)
			if c14Shells(c.kind) == 0 {
				leak = true
			}
			if c14Shells(c.kind) == 2 {
				double = true
			}
		}
	}
	check := func(when string) {
		got := s.stats.currentConnections
		if got == open {
			return
		}
		// known: the slot is given back by the shell goroutine only (no shell: leak; two shells: twice)
		if (leak || double) && got == faulty {
			verifrt.Assert(false, "the connection count is given back by the shell request handler only: a connection without a shell request leaks its slot, one with two shell requests gives it back twice (the defect repaired by the C14 fix commit is back; "+when+")")
		}
		verifrt.Assert(false, "the reported number of open connections differs from the number actually open ("+when+")")
	}
	for i := 0; i < q; i++ {
		c := &c14Conn{id: i, kind: verifrt.Choose("kind", c14Kinds), closed: make(chan struct{}), chans: make(chan gossh.NewChannel, c14ChanSize),
			global: make(chan *gossh.Request, c14ChanSize), waitDone: make(chan struct{})}
		conns = append(conns, c)
		reported := s.stats.currentConnections
		l.incoming <- c
		settle()
		admitted := c14Authenticated[c.id] || c.kind == c14AuthFails && reported < max
		if reported >= max {
			verifrt.Assert(!c14Authenticated[c.id], "a connection was served beyond MaxConnections")
		} else if c.kind != c14AuthFails {
			verifrt.Assert(c14Authenticated[c.id], "a connection was refused although fewer than MaxConnections are open")
		}
		_ = admitted
		if c14Authenticated[c.id] {
			open++
			faulty++
			c14Drive(c)
			settle()
			if c.isClosed { // the server ended it (unknown request)
				open--
				faulty -= c14Shells(c.kind)
				if c14Shells(c.kind) == 0 {
					leak = true
				}
			}
		}
		verifrt.Assert(open <= max, "more than MaxConnections served at once")
		check("after arrival")
		if verifrt.Bool("ends-early") {
			end(c)
			check("after an early end")
		}
	}
	for _, c := range conns {
		end(c)
	}
	check("after all connections ended")
	verifrt.Assert(s.stats.currentConnections >= 0 || double, "negative connection count")
	if open == 0 && s.stats.currentConnections == 0 {
		verifrt.Reach("all-slots-free")
	}
	cancel()
	verifrt.Reach("done")
}
