//verif:dest internal/server/zz_verif_c14b.go

package server

import (
	"context"
	"net"
	"time"

	"github.com/mimecast/dtail/internal/config"
	"github.com/mimecast/dtail/internal/io/dlog"
	"github.com/mimecast/dtail/internal/source"
	"github.com/mimecast/dtail/internal/verifrt"

	gossh "golang.org/x/crypto/ssh"
)

var _ net.Conn

// VerifC14bSimultaneousEnds: k served connections end at the same moment (a
// client holding several connections dies, the network drops): their
// per-connection goroutines give their slots back concurrently; afterwards
// the reported number of open connections is 0 and new connections are served
// again up to MaxConnections.
func VerifC14bSimultaneousEnds(k int) {
	dlog.VerifInstall(source.Server)
	config.Server.MaxConnections = k
	config.Server.Schedule, config.Server.Continuous = nil, nil
	config.Server.Permissions = config.Permissions{Default: []string{"^/.*$"}}
	c14Authenticated = map[int]bool{}
	s := &Server{catLimiter: make(chan struct{}, 2), tailLimiter: make(chan struct{}, 2), sshServerConfig: &gossh.ServerConfig{}}
	ctx, cancel := context.WithCancel(context.Background())
	l := &c14Listener{incoming: make(chan net.Conn)}
	go s.listenerLoop(ctx, l)
	var conns []*c14Conn
	for i := 0; i < k; i++ {
		c := &c14Conn{id: i, kind: c14OneShell, closed: make(chan struct{}), chans: make(chan gossh.NewChannel, 2)}
		conns = append(conns, c)
		l.incoming <- c
		verifrt.Sleep(time.Second)
		c14Drive(c)
		verifrt.Sleep(time.Second)
	}
	verifrt.Assert(s.stats.currentConnections == k, "the reported number of open connections differs from the number actually open")
	for _, c := range conns { // all end at once
		c.Close()
		close(c.chans)
	}
	verifrt.Sleep(5 * time.Second)
	verifrt.Assert(s.stats.currentConnections == 0, "connections that ended at the same moment did not all give their slot back")
	// and the freed slots are usable
	c := &c14Conn{id: k, kind: c14OneShell, closed: make(chan struct{}), chans: make(chan gossh.NewChannel, 2)}
	l.incoming <- c
	verifrt.Sleep(time.Second)
	verifrt.Assert(c14Authenticated[k], "a connection is refused although no connection is open")
	c.Close()
	close(c.chans)
	verifrt.Sleep(time.Second)
	cancel()
	verifrt.Reach("done")
}

// VerifC14cManyOpen: k connections are opened one after another and stay open,
// with MaxConnections = max: each of the first max is served (whatever the
// number of CPUs or anything else of the machine), every further one is turned
// away; when all have ended the count is 0.
func VerifC14cManyOpen(k, max int) {
	dlog.VerifInstall(source.Server)
	config.Server.MaxConnections = max
	config.Server.Schedule, config.Server.Continuous = nil, nil
	config.Server.Permissions = config.Permissions{Default: []string{"^/.*$"}}
	c14Authenticated = map[int]bool{}
	s := &Server{catLimiter: make(chan struct{}, 2), tailLimiter: make(chan struct{}, 2), sshServerConfig: &gossh.ServerConfig{}}
	ctx, cancel := context.WithCancel(context.Background())
	l := &c14Listener{incoming: make(chan net.Conn)}
	go s.listenerLoop(ctx, l)
	var conns []*c14Conn
	for i := 0; i < k; i++ {
		c := &c14Conn{id: i, kind: c14OneShell, closed: make(chan struct{}), chans: make(chan gossh.NewChannel, 2)}
		conns = append(conns, c)
		delivered := false
		select {
		case l.incoming <- c:
			delivered = true
		case <-time.After(5 * time.Second):
		}
		verifrt.Assert(delivered, "the server stopped accepting connections although fewer than MaxConnections are open")
		verifrt.Sleep(time.Second)
		if i < max {
			verifrt.Assert(c14Authenticated[i], "a connection was not served although fewer than MaxConnections are open")
			c14Drive(c)
			verifrt.Sleep(time.Second)
			verifrt.Assert(s.stats.currentConnections == i+1, "the reported number of open connections differs from the number actually open")
		} else {
			verifrt.Assert(!c14Authenticated[i], "a connection was served beyond MaxConnections")
		}
	}
	for _, c := range conns {
		c.Close()
		close(c.chans)
		verifrt.Sleep(time.Second)
	}
	verifrt.Sleep(3 * time.Second)
	verifrt.Assert(s.stats.currentConnections == 0, "slots are still taken after all connections ended")
	cancel()
	verifrt.Reach("done")
}

// VerifC14dChatty: a client that keeps the SSH connection busy - more
// connection-wide keepalive requests and more requests on its session channel
// than the library buffers (x/crypto/ssh: "The Request and NewChannel channels
// must be serviced, or the connection will hang") - and then goes away, while
// an ordinary connection is open or not: its slot is given back and the next
// client is served.
func VerifC14dChatty(others int) {
	dlog.VerifInstall(source.Server)
	config.Server.MaxConnections = 1 + others
	config.Server.Schedule, config.Server.Continuous = nil, nil
	config.Server.Permissions = config.Permissions{Default: []string{"^/.*$"}}
	c14Authenticated = map[int]bool{}
	s := &Server{catLimiter: make(chan struct{}, 2), tailLimiter: make(chan struct{}, 2), sshServerConfig: &gossh.ServerConfig{}}
	ctx, cancel := context.WithCancel(context.Background())
	l := &c14Listener{incoming: make(chan net.Conn)}
	go s.listenerLoop(ctx, l)
	mk := func(id, kind int) *c14Conn {
		return &c14Conn{id: id, kind: kind, closed: make(chan struct{}), chans: make(chan gossh.NewChannel, c14ChanSize),
			global: make(chan *gossh.Request, c14ChanSize), waitDone: make(chan struct{})}
	}
	var conns []*c14Conn
	for i := 0; i < others; i++ {
		conns = append(conns, mk(i, c14OneShell))
	}
	conns = append(conns, mk(others, c14Chatty))
	for _, c := range conns {
		l.incoming <- c
		verifrt.Sleep(time.Second)
		verifrt.Assert(c14Authenticated[c.id], "a connection was refused although fewer than MaxConnections are open")
		c14Drive(c)
		verifrt.Sleep(time.Second)
	}
	verifrt.Assert(s.stats.currentConnections == 1+others, "the reported number of open connections differs from the number actually open")
	chatty := conns[others]
	chatty.Close() // the client is gone (abrupt close)
	verifrt.Sleep(5 * time.Second)
	verifrt.Assert(s.stats.currentConnections == others, "a connection that sent many requests and ended did not give its slot back")
	next := mk(others+1, c14OneShell)
	l.incoming <- next
	verifrt.Sleep(time.Second)
	verifrt.Assert(c14Authenticated[next.id], "a connection is refused although fewer than MaxConnections are open")
	c14Drive(next)
	verifrt.Sleep(time.Second)
	next.Close()
	for i := 0; i < others; i++ {
		conns[i].Close()
	}
	verifrt.Sleep(5 * time.Second)
	verifrt.Assert(s.stats.currentConnections == 0, "slots are still taken after all connections ended")
	cancel()
	verifrt.Reach("done")
}

// VerifC14eBurst: max+extra clients connect at the same moment and their SSH
// handshakes take a second each (slow links, a connection storm after a
// network partition heals): never more than MaxConnections of them are served
// at once, the reported number equals the number open, and when all have gone
// the count is 0 and a new client is served.
func VerifC14eBurst(max, extra int) {
	dlog.VerifInstall(source.Server)
	config.Server.MaxConnections = max
	config.Server.Schedule, config.Server.Continuous = nil, nil
	config.Server.Permissions = config.Permissions{Default: []string{"^/.*$"}}
	c14Authenticated = map[int]bool{}
	s := &Server{catLimiter: make(chan struct{}, 2), tailLimiter: make(chan struct{}, 2), sshServerConfig: &gossh.ServerConfig{}}
	ctx, cancel := context.WithCancel(context.Background())
	l := &c14Listener{incoming: make(chan net.Conn)}
	go s.listenerLoop(ctx, l)
	mk := func(id, kind int) *c14Conn {
		return &c14Conn{id: id, kind: kind, closed: make(chan struct{}), chans: make(chan gossh.NewChannel, c14ChanSize),
			global: make(chan *gossh.Request, c14ChanSize), waitDone: make(chan struct{}), handshake: time.Second}
	}
	var conns []*c14Conn
	for i := 0; i < max+extra; i++ {
		kind := c14OneShell
		if i == 0 && verifrt.Bool("first-fails-authentication") {
			kind = c14AuthFails
		}
		c := mk(i, kind)
		conns = append(conns, c)
		l.incoming <- c // back to back: nobody waits for the handshake of the one before
	}
	verifrt.Sleep(3 * time.Second)
	open := 0
	for _, c := range conns {
		if c14Authenticated[c.id] {
			open++
			c14Drive(c)
		}
	}
	verifrt.Sleep(time.Second)
	verifrt.Assert(open <= max, "more than MaxConnections connections are served at once")
	verifrt.Assert(s.stats.currentConnections == open, "the reported number of open connections differs from the number actually open")
	for _, c := range conns {
		if c14Authenticated[c.id] {
			c.Close()
		}
	}
	verifrt.Sleep(5 * time.Second)
	verifrt.Assert(s.stats.currentConnections == 0, "slots are still taken (or the count is negative) after all connections ended")
	next := mk(max+extra, c14OneShell)
	next.handshake = 0
	l.incoming <- next
	verifrt.Sleep(time.Second)
	verifrt.Assert(c14Authenticated[next.id], "a connection is refused although no connection is open")
	c14Drive(next)
	verifrt.Sleep(time.Second)
	verifrt.Assert(s.stats.currentConnections == 1, "the reported number of open connections differs from the number actually open")
	next.Close()
	verifrt.Sleep(3 * time.Second)
	cancel()
	verifrt.Reach("done")
}
