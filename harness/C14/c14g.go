//verif:dest internal/server/zz_verif_c14g.go

package server

import (
	"flag"
	"os"

	"github.com/mimecast/dtail/internal/config"
	"github.com/mimecast/dtail/internal/io/dlog"
	"github.com/mimecast/dtail/internal/source"
	"github.com/mimecast/dtail/internal/verifh/memfs"
	"github.com/mimecast/dtail/internal/verifrt"
)

// VerifC14gConfiguredLimit: the MaxConnections the operator wrote into the
// configuration file is the number the accept gate enforces after
// config.Setup, whatever the other limits of the file and the command line
// switches are: with `open` slots taken, reserveConnection admits one more
// exactly if open < the configured MaxConnections.
func VerifC14gConfiguredLimit() {
	os.Setenv("HOME", "/home/u")
	if verifrt.Symbolic() {
		flag.CommandLine = flag.NewFlagSet("dserver", flag.ContinueOnError)
	}
	memfs.Reset()
	memfs.FS["/etc/dserver/dtail.json"] = &memfs.File{Data: []byte("{}")}
	m := verifrt.Int("maxconnections")
	cats := verifrt.Int("maxcats")
	tails := verifrt.Int("maxtails")
	verifrt.Assume(m >= 1 && m <= 32) // the refusal message formats the limit: the engine enumerates a formatted integer (cap 64)
	verifrt.Assume(cats >= 1 && cats <= 1<<20)
	verifrt.Assume(tails >= 1 && tails <= 1<<20)
	config.VerifC14gMaxConnections, config.VerifC14gMaxCats, config.VerifC14gMaxTails = m, cats, tails
	args := config.Args{ConfigFile: "/etc/dserver/dtail.json", LogLevel: config.DefaultLogLevel, SSHPort: config.DefaultSSHPort}
	if verifrt.Bool("bindaddress") {
		args.SSHBindAddress = "127.0.0.1"
	}
	if verifrt.Bool("otherport") {
		args.SSHPort = 2223
	}
	config.Setup(source.Server, &args, nil)
	dlog.VerifInstall(source.Server)
	verifrt.Assert(config.Server.MaxConnections == m, "the connection limit in force differs from MaxConnections of the configuration file")
	verifrt.Assert(config.Server.MaxConcurrentCats == cats, "the cat limit in force differs from MaxConcurrentCats of the configuration file")
	open := verifrt.Int("open")
	verifrt.Assume(open >= 0 && open <= 1<<21)
	s := &stats{currentConnections: open}
	err := s.reserveConnection()
	verifrt.Assert((err == nil) == (open < m), "the accept gate admits or refuses against another number than the configured MaxConnections")
	if err == nil {
		verifrt.Assert(s.currentConnections == open+1, "an admitted connection does not take exactly one slot")
		verifrt.Reach("admitted")
	} else {
		verifrt.Assert(s.currentConnections == open, "a refused connection changes the slot count")
		verifrt.Reach("refused")
	}
}
