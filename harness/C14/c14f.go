//verif:dest internal/server/zz_verif_c14f.go
//verif:replace@C14f golang.org/x/crypto/ssh.NewServerConn = c14fNewServerConn

package server

import (
	"context"
	"errors"
	"net"
	"os"
	"time"

	"github.com/mimecast/dtail/internal/config"
	"github.com/mimecast/dtail/internal/io/dlog"
	"github.com/mimecast/dtail/internal/source"
	sshserver "github.com/mimecast/dtail/internal/ssh/server"
	"github.com/mimecast/dtail/internal/verifrt"

	gossh "golang.org/x/crypto/ssh"
)

// which key each connection offers in its handshake (by connection id)
var c14fKeys = map[int]byte{}

// the handshake stand-in runs the server's real public key callback
func c14fNewServerConn(c net.Conn, cfg *gossh.ServerConfig) (*gossh.ServerConn, <-chan gossh.NewChannel, <-chan *gossh.Request, error) {
	conn := c.(*c14Conn)
	if _, err := cfg.PublicKeyCallback(conn, sshserver.VerifC09Key(c14fKeys[conn.id])); err != nil {
		return nil, nil, nil, errors.New("ssh: handshake failed: " + err.Error())
	}
	c14Authenticated[conn.id] = true
	return &gossh.ServerConn{Conn: conn}, conn.chans, conn.global, nil
}

// VerifC14fKeyLogins: a sequence of public key logins through the server's
// real PublicKeyCallback on the machine model of C09e (alice and bob have key
// files, carol's cannot be read, mallory has none): whoever logged in or was
// refused before, a user with a listed key is served while slots are free, the
// count equals the number open and returns to 0.
func VerifC14fKeyLogins(q int) {
	dlog.VerifInstall(source.Server)
	config.Common.CacheDir = "cache"
	config.Server.MaxConnections = 2
	config.Server.Schedule, config.Server.Continuous = nil, nil
	config.Server.Permissions = config.Permissions{Default: []string{"^/.*$"}}
	os.Setenv("HOME", "/home/dserver")
	c14Authenticated = map[int]bool{}
	c14fKeys = map[int]byte{}
	s := &Server{catLimiter: make(chan struct{}, 2), tailLimiter: make(chan struct{}, 2), sshServerConfig: &gossh.ServerConfig{}}
	s.sshServerConfig.PublicKeyCallback = sshserver.PublicKeyCallback // as server.New does
	ctx, cancel := context.WithCancel(context.Background())
	l := &c14Listener{incoming: make(chan net.Conn)}
	go s.listenerLoop(ctx, l)
	users := []string{"alice", "bob", "carol", "mallory"}
	rightKey := map[string]byte{"alice": '1', "bob": '2'}
	for i := 0; i < q; i++ {
		u := users[verifrt.Choose("user", len(users))]
		key := byte('1' + verifrt.Choose("key", 3))
		c := &c14Conn{id: i, kind: c14OneShell, user: u, closed: make(chan struct{}), chans: make(chan gossh.NewChannel, c14ChanSize),
			global: make(chan *gossh.Request, c14ChanSize), waitDone: make(chan struct{})}
		c14fKeys[i] = key
		l.incoming <- c
		verifrt.Sleep(3 * time.Second)
		want := rightKey[u] == key
		verifrt.Assert(c14Authenticated[i] == want, "a key login is served exactly if the key is listed for the user (no slot is taken otherwise)")
		if want {
			c14Drive(c)
			verifrt.Sleep(time.Second)
			verifrt.Assert(s.stats.currentConnections == 1, "the reported number of open connections differs from the number actually open")
			c.Close()
			verifrt.Sleep(3 * time.Second)
		}
		verifrt.Assert(s.stats.currentConnections == 0, "a slot is still taken although no connection is open")
	}
	cancel()
	verifrt.Reach("done")
}
