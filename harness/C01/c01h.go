//verif:dest internal/clients/zz_verif_c01h.go
//verif:replace@C01h fmt.Print = c01hPrint
//verif:replace@C01h fmt.Println = c01hPrintln
//verif:replace@C01h (*os.File).Write = c01hFileWrite
//verif:replace@C01h (*os.File).WriteString = c01hFileWriteString
//verif:replace@C01h (*github.com/mimecast/dtail/internal/io/dlog.DLog).Info = -
//verif:replace@C01h (*github.com/mimecast/dtail/internal/io/dlog.DLog).Mapreduce = -

package clients

import (
	"context"
	"os"
	"time"

	"github.com/mimecast/dtail/internal/clients/connectors"
	"github.com/mimecast/dtail/internal/clients/handlers"
	"github.com/mimecast/dtail/internal/config"
	"github.com/mimecast/dtail/internal/io/dlog"
	"github.com/mimecast/dtail/internal/io/fs"
	"github.com/mimecast/dtail/internal/lcontext"
	"github.com/mimecast/dtail/internal/regex"
	shandlers "github.com/mimecast/dtail/internal/server/handlers"
	"github.com/mimecast/dtail/internal/source"
	"github.com/mimecast/dtail/internal/verifh/memfs"
	"github.com/mimecast/dtail/internal/verifrt"
)

var c01hTerminal []byte

func c01hPrint(a ...interface{}) (int, error) {
	n := 0
	for _, x := range a {
		c01hTerminal = append(c01hTerminal, x.(string)...)
		n += len(x.(string))
	}
	return n, nil
}
func c01hFileWrite(f *os.File, b []byte) (int, error) {
	c01hTerminal = append(c01hTerminal, b...)
	return len(b), nil
}
func c01hFileWriteString(f *os.File, s string) (int, error) { return c01hFileWrite(f, []byte(s)) }
func c01hPrintln(a ...interface{}) (int, error) {
	n, _ := c01hPrint(a...)
	c01hTerminal = append(c01hTerminal, '\n')
	return n + 1, nil
}

// c01hConn stands in for the SSH connection to one server: it counts as
// established (as ServerConnection.dial does), a real server handler in plain
// mode reads the file, and what it sends reaches the client's handler after
// `before` and the session ends `after` later.
type c01hConn struct {
	handler       handlers.Handler
	wire          []byte
	before, after time.Duration
}

func (x *c01hConn) Server() string             { return "srv1" }
func (x *c01hConn) Handler() handlers.Handler { return x.handler }
func (x *c01hConn) Start(ctx context.Context, cancel context.CancelFunc, throttleCh, statsCh chan struct{}) {
	statsCh <- struct{}{}
	defer func() { <-statsCh }()
	verifrt.Sleep(x.before)
	x.handler.Write(x.wire)
	verifrt.Sleep(x.after)
}

// c01hServerSide: what a server in plain mode sends for the file (the server
// runs in its own process: its log lines do not reach the client's terminal)
func c01hServerSide(content []byte) (wire []byte) {
	dlog.VerifInstall(source.Server)
	path := fs.VerifProvide(content)
	sh := shandlers.VerifNewServerHandler(true, true, true, 2, 2)
	cat := fs.NewCatFile(path, "f", sh.VerifServerMessages())
	err := cat.Start(context.Background(), lcontext.LContext{}, sh.VerifLines(), regex.NewNoop())
	verifrt.Assert(err == nil, "reading the file failed")
	p := make([]byte, 64)
	for len(sh.VerifLines()) > 0 || len(sh.VerifServerMessages()) > 0 || sh.VerifPending() > 0 {
		k, rerr := sh.Read(p)
		verifrt.Assert(rerr == nil, "server Read failed")
		wire = append(wire, p[:k]...)
	}
	return wire
}

// VerifC01hQuietSession: `dcat --plain` against a server over a connection
// (stand-in) through the real client: NewCatClient, baseClient.Start with its
// statistics goroutine and the prompt goroutine of the host key callback, the
// real stdout logger at the log level an SSH-mode client runs with ("info"),
// for sessions that last shorter or longer than the client's 3 s statistics
// interval: the terminal shows the file content and nothing else.
func VerifC01hQuietSession() {
	config.Server = nil
	dlog.VerifInstall(source.Server)
	config.Server.MaxLineLength = 64
	content := []byte(verifrt.StringIn("c", 3, "ab\n"))
	wire := c01hServerSide(content)
	dlog.VerifInstallRealLevel(source.Client, "stdout", "info")
	config.Client.TermColorsEnable = false
	config.Common.SSHPort = 2222
	memfs.Reset()
	os.Setenv("HOME", "/home/u")
	c01hTerminal = nil
	var args config.Args
	args.What = "/var/log/f"
	args.ServersStr = "srv1"
	args.UserName = "u"
	args.Plain, args.Quiet, args.NoColor = true, true, true // what config.Setup makes of --plain
	args.ConnectionsPerCPU = 1
	c, err := NewCatClient(args)
	verifrt.Assert(err == nil && c != nil && len(c.connections) == 1, "NewCatClient failed")
	conn := &c01hConn{handler: c.connections[0].Handler(), wire: wire}
	durations := []time.Duration{0, 2 * time.Second, 4 * time.Second, 7 * time.Second}
	conn.before = durations[verifrt.Choose("before", len(durations))]
	conn.after = durations[verifrt.Choose("after", len(durations))]
	c.connections = []connectors.Connector{conn}
	ctx, cancel := context.WithCancel(context.Background())
	done := make(chan struct{})
	go func() {
		c.Start(ctx, make(chan string))
		close(done)
	}()
	select {
	case <-done:
	case <-time.After(time.Minute):
		verifrt.Assert(false, "the client did not end after its session ended")
	}
	cancel()
	verifrt.Sleep(5 * time.Second)
	verifrt.Assert(string(c01hTerminal) == string(content), "what dcat --plain puts on the terminal differs from the file content: ["+string(c01hTerminal)+"]")
	if conn.before+conn.after > 3*time.Second {
		verifrt.Reach("longer-than-stats-interval")
	}
	verifrt.Reach("terminal-equals-file")
}
