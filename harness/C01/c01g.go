//verif:dest internal/verifh/c01/c01g.go

package c01

import (
	"context"

	chandlers "github.com/mimecast/dtail/internal/clients/handlers"
	"github.com/mimecast/dtail/internal/config"
	"github.com/mimecast/dtail/internal/io/dlog"
	"github.com/mimecast/dtail/internal/io/fs"
	"github.com/mimecast/dtail/internal/io/line"
	"github.com/mimecast/dtail/internal/lcontext"
	"github.com/mimecast/dtail/internal/regex"
	shandlers "github.com/mimecast/dtail/internal/server/handlers"
	"github.com/mimecast/dtail/internal/source"
	"github.com/mimecast/dtail/internal/verifrt"
)

// VerifC01gAfterAbortedRead: a server process that has served other sessions
// before: first a read that is stopped half way (a grep with --max 1 over a
// file of `earlier` lines: the filter stops after the first hit and cancels
// the reader, which is in the middle of the file with a line in its hands),
// then a dcat --plain of a file of n symbolic bytes in a new session of the
// same process: its output is that file byte for byte — nothing of an earlier
// session's file shows up in it (readers share a process-wide buffer pool).
func VerifC01gAfterAbortedRead(earlier, n int) {
	lg := dlog.VerifInstall(source.Client)
	config.Server.MaxLineLength = 64
	// session 1: the aborted read
	var first []byte
	for i := 0; i < earlier; i++ {
		first = append(first, "STALE line "...)
		first = append(first, byte('0'+i/100), byte('0'+i/10%10), byte('0'+i%10), '\n')
	}
	p1 := fs.VerifProvide(first)
	lines1 := make(chan *line.Line, 100)
	grep := fs.NewCatFile(p1, "a", make(chan string, 10))
	err := grep.Start(context.Background(), lcontext.LContext{MaxCount: 1}, lines1, regex.NewNoop())
	verifrt.Assert(err == nil, "the first read failed")
	for len(lines1) > 0 {
		l := <-lines1
		_ = l
	}
	// session 2: dcat --plain of another file
	content := []byte(verifrt.StringIn("c", n, "ab\n"))
	p2 := fs.VerifProvide(content)
	sh := shandlers.VerifNewServerHandler(true, true, true, 2, 2)
	ch := chandlers.NewClientHandler("srv")
	cat := fs.NewCatFile(p2, "f", sh.VerifServerMessages())
	err = cat.Start(context.Background(), lcontext.LContext{}, sh.VerifLines(), regex.NewNoop())
	verifrt.Assert(err == nil, "reading the file failed")
	nlog := len(lg.Calls)
	p := make([]byte, 4096)
	for len(sh.VerifLines()) > 0 || len(sh.VerifServerMessages()) > 0 || sh.VerifPending() > 0 {
		k, rerr := sh.Read(p)
		verifrt.Assert(rerr == nil, "server Read failed")
		ch.Write(p[:k])
	}
	var printed []byte
	for _, c := range lg.Calls[nlog:] {
		printed = append(printed, c...)
	}
	verifrt.Assert(string(printed) == string(content), "dcat --plain output differs from the file content after the process served an aborted read")
	verifrt.Reach("second-session-exact")
}
