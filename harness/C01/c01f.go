//verif:dest internal/verifh/c01/c01f.go
//verif:replace@C01f fmt.Print = c01fPrint
//verif:replace@C01f fmt.Println = c01fPrintln
//verif:replace@C01f (*os.File).Write = c01fFileWrite
//verif:replace@C01f (*os.File).WriteString = c01fFileWriteString
//verif:replace@C04h fmt.Print = c01fPrint
//verif:replace@C04h fmt.Println = c01fPrintln
//verif:replace@C04h (*os.File).Write = c01fFileWrite
//verif:replace@C04h (*os.File).WriteString = c01fFileWriteString

package c01

import (
	"context"
	"os"
	"time"

	chandlers "github.com/mimecast/dtail/internal/clients/handlers"
	"github.com/mimecast/dtail/internal/config"
	"github.com/mimecast/dtail/internal/io/dlog"
	"github.com/mimecast/dtail/internal/io/fs"
	"github.com/mimecast/dtail/internal/lcontext"
	"github.com/mimecast/dtail/internal/regex"
	shandlers "github.com/mimecast/dtail/internal/server/handlers"
	"github.com/mimecast/dtail/internal/source"
	"github.com/mimecast/dtail/internal/verifrt"
)

var c01fTerminal []byte

func c01fPrint(a ...interface{}) (int, error) {
	n := 0
	for _, x := range a {
		c01fTerminal = append(c01fTerminal, x.(string)...)
		n += len(x.(string))
	}
	return n, nil
}
// whatever is written to a standard stream reaches the terminal as well
func c01fFileWrite(f *os.File, b []byte) (int, error) {
	c01fTerminal = append(c01fTerminal, b...)
	return len(b), nil
}
func c01fFileWriteString(f *os.File, s string) (int, error) { return c01fFileWrite(f, []byte(s)) }
func c01fPrintln(a ...interface{}) (int, error) {
	n, _ := c01fPrint(a...)
	c01fTerminal = append(c01fTerminal, '\n')
	return n + 1, nil
}

// VerifC01fTerminal: the plain pipeline of C01a down to the terminal through
// the real logger objects (dlog.DLog.Raw, loggers.stdout from the factory): for
// content free of the bytes the known findings are about (0xAC, a leading '.')
// and lines below MaxLineLength, what reaches the terminal is the file, byte
// for byte — nothing added (no newline per message, no prefix), nothing lost.
func VerifC01fTerminal(n, P int) {
	dlog.VerifInstallReal(source.Client, "stdout")
	config.Client.TermColorsEnable = verifrt.Bool("colours-enabled-in-config") // --plain switches colours off whatever the config says
	if config.Client.TermColorsEnable {
		config.Client.TermColorsEnable = false // what config.Setup does for --plain
	}
	config.Server.MaxLineLength = 64
	c01fTerminal = nil
	content := []byte(verifrt.StringIn("c", n, "ab% \n\r\t"))
	path := fs.VerifProvide(content)
	sh := shandlers.VerifNewServerHandler(true, true, true, 2, 2)
	ch := chandlers.NewClientHandler("srv")
	cat := fs.NewCatFile(path, "f", sh.VerifServerMessages())
	err := cat.Start(context.Background(), lcontext.LContext{}, sh.VerifLines(), regex.NewNoop())
	verifrt.Assert(err == nil, "reading the file failed")
	p := make([]byte, P)
	for len(sh.VerifLines()) > 0 || len(sh.VerifServerMessages()) > 0 || sh.VerifPending() > 0 {
		k, rerr := sh.Read(p)
		verifrt.Assert(rerr == nil, "server Read failed")
		ch.Write(p[:k])
	}
	verifrt.Assert(string(c01fTerminal) == string(content), "what dcat --plain puts on the terminal differs from the file content")
	verifrt.Reach("terminal-equals-file")
}

// VerifC04hFollowTerminal: the same in follow mode (`dtail --plain`): n bytes
// are appended to a followed file (blank and white-space-only lines included);
// the terminal shows every complete appended line, unmodified and in order,
// and nothing else.
func VerifC04hFollowTerminal(n int) {
	dlog.VerifInstallReal(source.Client, "stdout")
	config.Client.TermColorsEnable = false
	config.Server.MaxLineLength = 64
	c01fTerminal = nil
	content := []byte(verifrt.StringIn("c", n, "ab% \n\r\t"))
	path := fs.VerifProvide(content)
	sh := shandlers.VerifNewServerHandler(true, true, true, 2, 2)
	ch := chandlers.NewClientHandler("srv")
	tail := fs.NewTailFile(path, "f", sh.VerifServerMessages())
	ctx, cancel := context.WithCancel(context.Background())
	go tail.Start(ctx, lcontext.LContext{}, sh.VerifLines(), regex.NewNoop())
	verifrt.Sleep(3 * time.Second)
	p := make([]byte, 64)
	for len(sh.VerifLines()) > 0 || len(sh.VerifServerMessages()) > 0 || sh.VerifPending() > 0 {
		k, rerr := sh.Read(p)
		verifrt.Assert(rerr == nil, "server Read failed")
		ch.Write(p[:k])
	}
	cancel()
	want := ""
	for i := len(content); i > 0; i-- {
		if content[i-1] == '\n' {
			want = string(content[:i])
			break
		}
	}
	verifrt.Assert(string(c01fTerminal) == want, "what dtail --plain puts on the terminal differs from the complete lines appended to the file")
	verifrt.Reach("terminal-equals-appended-lines")
}
