//verif:dest internal/io/fs/zz_verif_c01c.go
//verif:replace@C01c compress/gzip.NewReader = c01cGzip
//verif:replace@C01c github.com/DataDog/zstd.NewReader = c01cZstd

package fs

import (
	"compress/gzip"
	"io"

	"github.com/mimecast/dtail/internal/io/dlog"
	"github.com/mimecast/dtail/internal/source"
	"github.com/mimecast/dtail/internal/verifrt"
)

// which decompressor was put in front of the file (inflate itself is outside)
var c01cKind int

func c01cGzip(r io.Reader) (*gzip.Reader, error) { c01cKind = 1; return new(gzip.Reader), nil }

type c01cRC struct{}

func (c01cRC) Read(p []byte) (int, error) { return 0, io.EOF }
func (c01cRC) Close() error               { return nil }
func c01cZstd(r io.Reader) io.ReadCloser  { c01cKind = 2; return c01cRC{} }

func c01cHasSuffix(s, suf string) bool {
	return len(s) >= len(suf) && s[len(s)-len(suf):] == suf
}

// VerifC01cSuffix: for every file name of n bytes the reader is gzip iff the
// name ends in .gz/.gzip, zstd iff it ends in .zst, plain otherwise.
func VerifC01cSuffix(n int) {
	dlog.VerifInstall(source.Server)
	name := verifrt.StringIn("name", n, ".gzipst/ab")
	f := &readFile{filePath: name}
	c01cKind = 0
	r, err := f.makeCompressedFileReader(nil)
	verifrt.Assert(err == nil && r != nil, "makeCompressedFileReader failed")
	want := 0
	if c01cHasSuffix(name, ".gz") || c01cHasSuffix(name, ".gzip") {
		want = 1
	} else if c01cHasSuffix(name, ".zst") {
		want = 2
	}
	verifrt.Assert(c01cKind == want, "wrong decompressor for the file name suffix")
	if want != 0 {
		verifrt.Reach("compressed")
	}
	verifrt.Reach("checked")
}
