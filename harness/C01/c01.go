//verif:dest internal/verifh/c01/c01.go

// Package c01: dcat reproduces file content byte for byte (property C01).
package c01

import (
	"context"
	"time"

	chandlers "github.com/mimecast/dtail/internal/clients/handlers"
	"github.com/mimecast/dtail/internal/config"
	"github.com/mimecast/dtail/internal/io/dlog"
	"github.com/mimecast/dtail/internal/io/fs"
	"github.com/mimecast/dtail/internal/lcontext"
	"github.com/mimecast/dtail/internal/regex"
	shandlers "github.com/mimecast/dtail/internal/server/handlers"
	"github.com/mimecast/dtail/internal/source"
	"github.com/mimecast/dtail/internal/verifrt"
)

const delim = 0xAC // protocol.MessageDelimiter as a byte

// refLines is the reference: the file as a sequence of lines, a newline
// inserted after each run of M consecutive non-newline bytes (what C01 permits;
// "ab\n" with M=2 therefore becomes "ab\n\n": the inserted newline, then the file's own).
func refLines(content []byte, M int) [][]byte {
	var lines [][]byte
	var cur []byte
	for _, b := range content {
		if b == '\n' {
			cur = append(cur, b)
			lines = append(lines, cur)
			cur = nil
			continue
		}
		cur = append(cur, b)
		if len(cur) >= M {
			// the run has reached MaxLineLength: a newline is inserted right here
			cur = append(cur, '\n')
			lines = append(lines, cur)
			cur = nil
		}
	}
	if len(cur) > 0 {
		lines = append(lines, cur)
	}
	return lines
}

// refLinesLazy: the other reading of the permitted difference: the newline is
// inserted only when a further non-newline byte follows the run of M bytes.
func refLinesLazy(content []byte, M int) [][]byte {
	var lines [][]byte
	var cur []byte
	for _, b := range content {
		if b == '\n' {
			cur = append(cur, b)
			lines = append(lines, cur)
			cur = nil
			continue
		}
		if len(cur) >= M {
			cur = append(cur, '\n')
			lines = append(lines, cur)
			cur = nil
		}
		cur = append(cur, b)
	}
	if len(cur) > 0 {
		lines = append(lines, cur)
	}
	return lines
}

func concat(lines [][]byte) []byte {
	var out []byte
	for _, l := range lines {
		out = append(out, l...)
	}
	return out
}

func itoa(n int) string {
	if n == 0 {
		return "0"
	}
	s := ""
	for n > 0 {
		s = string(rune('0'+n%10)) + s
		n /= 10
	}
	return s
}

// clientView models what the client prints for a wire stream, with the
// listed known findings applied: the stream is cut into messages after every
// '\n' and at every delimiter byte (KF1: a 0xAC content byte acts as a
// delimiter and disappears); a message starting with '.' is hidden (KF2).
func clientView(stream []byte) (out []byte, sawAC, sawDot bool) {
	var msg []byte
	flush := func() {
		if len(msg) > 0 && msg[0] == '.' {
			sawDot = true
			if verifrt.Known("C01-KF2") {
				msg = nil
				return
			}
		}
		out = append(out, msg...)
		msg = nil
	}
	for _, b := range stream {
		switch b {
		case '\n':
			msg = append(msg, b)
			flush()
		case delim:
			flush()
		default:
			msg = append(msg, b)
		}
	}
	// bytes after the last delimiter stay in the receive buffer (never printed)
	return
}

// faultyOutput: the reference with exactly the known findings applied.
// frame(i, line) gives the bytes the server puts on the wire for line i.
func faultyOutput(lines [][]byte, P int, prefix func(i int) string) (out []byte, fired map[string]bool) {
	fired = map[string]bool{}
	var stream []byte
	for i, l := range lines {
		var fr []byte
		fr = append(fr, prefix(i)...)
		for _, b := range l {
			if b == delim {
				fired["C01-KF1"] = true
			}
		}
		fr = append(fr, l...)
		fr = append(fr, delim)
		if len(fr) > P && verifrt.Known("C01-KF3") {
			fired["C01-KF3"] = true
			fr = fr[:P] // the rest of the frame is dropped by Read (copy + deferred Reset)
		}
		stream = append(stream, fr...)
	}
	var dot bool
	if verifrt.Known("C01-KF1") {
		out, _, dot = clientView(stream)
	} else {
		// without KF1 a content 0xAC would have to survive: model = per frame
		out, _, dot = clientView(stream)
	}
	if dot {
		fired["C01-KF2"] = true
	}
	return
}

func run(n, M, P int, plain bool) (content []byte, printed []byte, logCalls int, lg *dlog.VerifLogger) {
	lg = dlog.VerifInstall(source.Client) // a serverless dcat is a client process
	config.Server.MaxLineLength = M
	content = verifrt.Bytes("c", n)
	path := fs.VerifProvide(content)
	sh := shandlers.VerifNewServerHandler(plain, true, true, 2, 2)
	ch := chandlers.NewClientHandler("srv")

	cat := fs.NewCatFile(path, "f", sh.VerifServerMessages())
	err := cat.Start(context.Background(), lcontext.LContext{}, sh.VerifLines(), regex.NewNoop())
	verifrt.Assert(err == nil, "reading the file failed")

	nlog := len(lg.Calls)
	p := make([]byte, P)
	for len(sh.VerifLines()) > 0 || len(sh.VerifServerMessages()) > 0 || sh.VerifPending() > 0 {
		k, rerr := sh.Read(p)
		verifrt.Assert(rerr == nil, "server Read failed")
		ch.Write(p[:k])
	}
	// what the content channel printed (Raw calls) vs. log lines printed into stdout
	for i, c := range lg.Calls {
		if i < nlog {
			verifrt.Observe("log call", c)
			logCalls++ // printed while reading (log lines)
			continue
		}
		printed = append(printed, c...)
	}
	return
}

// VerifC01aPlain: dcat --plain, serverless wiring: file -> read -> filter ->
// server Read(p[P]) -> client Write -> stdout.
func VerifC01aPlain(n, M, P int) {
	content, printed, logCalls, _ := run(n, M, P, true)
	lines := refLines(content, M)
	want := concat(lines)
	if logCalls > 0 {
		// a WARN log line ("Long log line, splitting...") went to stdout in plain mode
		long := false
		for _, l := range lines {
			if len(l) > M || (len(l) == M+1 && l[M] == '\n' && false) {
				long = true
			}
		}
		_ = long
		verifrt.Finding("C01-KF4", len(lines) > 0)
		verifrt.Reach("long-line-split")
	}
	if string(printed) == string(want) || string(printed) == string(concat(refLinesLazy(content, M))) {
		verifrt.Reach("output-equals-file")
		return
	}
	faulty, fired := faultyOutput(lines, P, func(int) string { return "" })
	verifrt.Observe("printed", printed, "faulty", faulty, "want", want)
	verifrt.Assert(string(printed) == string(faulty), "dcat --plain output differs from the file content (beyond the known findings)")
	hit := false
	for _, id := range []string{"C01-KF1", "C01-KF2", "C01-KF3"} {
		if fired[id] {
			verifrt.Finding(id, true)
			hit = true
		}
	}
	verifrt.Assert(hit, "output differs from the file although no known finding applies")
}

// VerifC01bRecords: non-plain mode: every printed record is
// REMOTE|host|100|<line number>|<file id>|<line>.
func VerifC01bRecords(n, M, P int) {
	content, printed, _, _ := run(n, M, P, false)
	lines := refLines(content, M)
	prefix := func(i int) string { return "REMOTE|host|100|" + itoa(i+1) + "|f|" }
	var want []byte
	for i, l := range lines {
		want = append(want, prefix(i)...)
		want = append(want, l...)
	}
	if string(printed) == string(want) {
		verifrt.Reach("records-equal-file")
		return
	}
	faulty, fired := faultyOutput(lines, P, prefix)
	verifrt.Assert(string(printed) == string(faulty), "dcat record output differs from the file content (beyond the known findings)")
	hit := false
	for _, id := range []string{"C01-KF1", "C01-KF2", "C01-KF3"} {
		if fired[id] {
			verifrt.Finding(id, true)
			hit = true
		}
	}
	verifrt.Assert(hit, "records differ from the file although no known finding applies")
}

// VerifC01dRealSizes: the real constants (1 MiB MaxLineLength, the 32 KiB
// transport read of io.Copy) with concrete long lines and one symbolic byte:
// lines longer than one and than two transport reads, back to back.
func VerifC01dRealSizes(len1, len2 int) {
	lg := dlog.VerifInstall(source.Client)
	config.Server.MaxLineLength = 1024 * 1024
	var content []byte
	for i := 0; i < len1; i++ {
		content = append(content, 'x')
	}
	content = append(content, '\n')
	for i := 0; i < len2; i++ {
		content = append(content, 'y')
	}
	if len2 > 0 {
		content = append(content, '\n')
	}
	content = append(content, verifrt.ByteIn("b", "ab\n"), 'e', 'n', 'd')
	path := fs.VerifProvide(content)
	sh := shandlers.VerifNewServerHandler(true, true, true, 2, 2)
	ch := chandlers.NewClientHandler("srv")
	cat := fs.NewCatFile(path, "f", sh.VerifServerMessages())
	// the reader fills the queue; the consumer drains it with the transport buffer of io.Copy
	done := make(chan error, 1)
	go func() {
		done <- cat.Start(context.Background(), lcontext.LContext{}, sh.VerifLines(), regex.NewNoop())
	}()
	p := make([]byte, 32*1024)
	finished := false
	for !finished || len(sh.VerifLines()) > 0 || sh.VerifPending() > 0 {
		select {
		case err := <-done:
			verifrt.Assert(err == nil, "reading the file failed")
			finished = true
		default:
		}
		if len(sh.VerifLines()) > 0 || sh.VerifPending() > 0 {
			k, _ := sh.Read(p)
			ch.Write(p[:k])
		} else if !finished {
			verifrt.Sleep(time.Millisecond)
		}
	}
	var printed []byte
	for _, c := range lg.Raws {
		printed = append(printed, c...)
	}
	verifrt.Assert(string(printed) == string(content), "dcat --plain output differs from the file content for lines longer than the transport read")
	verifrt.Reach("real-sizes")
}
