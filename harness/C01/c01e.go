//verif:dest internal/io/fs/zz_verif_c01e.go
//verif:replace@C01e os.Open = c01eOpen
//verif:replace@C01e os.Stat = c01eStat
//verif:replace@C01e (*os.File).Seek = c01eSeek
//verif:replace@C01e (*os.File).Read = c01eRead
//verif:replace@C01e (*os.File).Close = c01eClose
//verif:replace@C01e compress/gzip.NewReader = c01eGzip
//verif:replace@C01e (*compress/gzip.Reader).Read = c01eGzipRead

package fs

import (
	"compress/gzip"
	"context"
	"io"
	iofs "io/fs"
	"os"
	"time"

	"github.com/mimecast/dtail/internal/config"
	"github.com/mimecast/dtail/internal/io/dlog"
	"github.com/mimecast/dtail/internal/io/line"
	"github.com/mimecast/dtail/internal/lcontext"
	"github.com/mimecast/dtail/internal/regex"
	"github.com/mimecast/dtail/internal/source"
	"github.com/mimecast/dtail/internal/verifrt"
)

// the file on disk (its size is what matters) and what the decompressor yields
var c01eDiskSize int64
var c01ePos map[*os.File]int64
var c01ePlain []byte
var c01eOff int
var c01eSlowAt int
var c01eWasSlow bool

type c01eInfo struct{ size int64 }

func (i c01eInfo) Name() string        { return "f" }
func (i c01eInfo) Size() int64         { return i.size }
func (i c01eInfo) Mode() iofs.FileMode { return 0o644 }
func (i c01eInfo) ModTime() time.Time  { return time.Time{} }
func (i c01eInfo) IsDir() bool         { return false }
func (i c01eInfo) Sys() interface{}    { return nil }

func c01eOpen(name string) (*os.File, error) {
	fd := new(os.File)
	c01ePos[fd] = 0
	return fd, nil
}
func c01eStat(name string) (os.FileInfo, error) { return c01eInfo{c01eDiskSize}, nil }
func c01eSeek(f *os.File, offset int64, whence int) (int64, error) {
	switch whence {
	case io.SeekStart:
		c01ePos[f] = offset
	case io.SeekCurrent:
		c01ePos[f] += offset
	case io.SeekEnd:
		c01ePos[f] = c01eDiskSize + offset
	}
	return c01ePos[f], nil
}
func c01eRead(f *os.File, p []byte) (int, error) {
	// the raw bytes of the file (only reached for an uncompressed file)
	off := c01ePos[f]
	if off >= int64(len(c01ePlain)) {
		return 0, io.EOF
	}
	k := copy(p, c01ePlain[off:])
	c01ePos[f] = off + int64(k)
	return k, nil
}
func c01eClose(f *os.File) error { return nil }

// the decompressor: yields the plain content (a few bytes per call; one call is
// slow, so that the periodic truncation check is due when the end is reached);
// it has consumed the whole file on disk by the time it reports end-of-file
func c01eGzip(r io.Reader) (*gzip.Reader, error) { return new(gzip.Reader), nil }
func c01eGzipRead(z *gzip.Reader, p []byte) (int, error) {
	if c01eOff >= len(c01ePlain) {
		return 0, io.EOF
	}
	if c01eOff >= c01eSlowAt && c01eSlowAt >= 0 {
		c01eSlowAt = -1
		c01eWasSlow = true
		verifrt.Sleep(4 * time.Second)
	}
	n := 3
	if n > len(p) {
		n = len(p)
	}
	if n > len(c01ePlain)-c01eOff {
		n = len(c01ePlain) - c01eOff
	}
	copy(p, c01ePlain[c01eOff:c01eOff+n])
	c01eOff += n
	return n, nil
}

// VerifC01eCompressed: dcat of a compressed file through the real makeReader
// (os.Open, makeCompressedFileReader) with a stand-in decompressor: n plain
// bytes (symbolic, the last line possibly unterminated) from a file whose size
// on disk is smaller or larger than n, read slowly enough for the periodic
// truncation check to be due at end-of-file: every byte is delivered and the
// reader ends without an error.
func VerifC01eCompressed(n, disk int) {
	dlog.VerifInstall(source.Server)
	config.Server.MaxLineLength = 1024
	VerifRealReader = true
	c01ePos = map[*os.File]int64{}
	c01eDiskSize = int64(disk)
	c01ePlain = verifrt.Bytes("c", n)
	for i := range c01ePlain {
		verifrt.Assume(c01ePlain[i] == '\n' || c01ePlain[i] == 'a' || c01ePlain[i] == 'b')
	}
	c01eOff = 0
	c01eWasSlow = false
	c01eSlowAt = verifrt.Choose("slow-at", n+1) - 1 // -1: never slow
	path := []string{"/var/log/x.gz", "/var/log/x.gzip", "/var/log/x.log"}[verifrt.Choose("suffix", 3)]
	lines := make(chan *line.Line, 100)
	serverMessages := make(chan string, 10)
	cat := NewCatFile(path, "x", serverMessages)
	err := cat.Start(context.Background(), lcontext.LContext{}, lines, regex.NewNoop())
	var got []byte
	for len(lines) > 0 {
		got = append(got, (<-lines).Content.Bytes()...)
	}
	verifrt.Assert(err == nil, "reading a (compressed) file that nobody truncated ended with an error")
	verifrt.Assert(string(got) == string(c01ePlain), "dcat of a (compressed) file does not deliver its decompressed content byte for byte")
	if c01eWasSlow {
		verifrt.Reach("truncation-check-due")
	}
	verifrt.Reach("delivered")
}
