//verif:dest cmd/dgrep/zz_verif_c03d.go
//verif:replace@C03d github.com/mimecast/dtail/internal/io/dlog.Start = c03dLogStart
//verif:replace@C03d (*github.com/mimecast/dtail/internal/clients.baseClient).Start = c03dClientStart
//verif:replace@C03d os.Exit = c03dExit
//verif:replace@C03d github.com/mimecast/dtail/internal/user.Name = c03dUser
//verif:replace@C03d github.com/mimecast/dtail/internal/io/signal.InterruptCh = c03dInterruptCh
//verif:replace@C03d regexp.Compile = c03dCompile
//verif:replace@C03d os.Stat = c03dStat

package main

import (
	"context"
	"flag"
	"errors"
	"os"
	"regexp"
	"sync"

	"github.com/mimecast/dtail/internal/clients"
	"github.com/mimecast/dtail/internal/io/dlog"
	"github.com/mimecast/dtail/internal/omode"
	"github.com/mimecast/dtail/internal/regex"
	"github.com/mimecast/dtail/internal/source"
	"github.com/mimecast/dtail/internal/verifrt"
)

type c03dExited struct{ status int }

// whether a pattern compiles is an uninterpreted predicate of its bytes (same verdict on both sides)
func c03dCompile(expr string) (*regexp.Regexp, error) {
	if len(expr) > 0 && !verifrt.IsConcrete(expr) && !verifrt.UFBool("compiles", expr) {
		return nil, errors.New("invalid regexp")
	}
	return new(regexp.Regexp), nil
}

var c03dClient *clients.VerifBaseClient
var c03dWhy interface{}

func c03dLogStart(ctx context.Context, wg *sync.WaitGroup, sourceProcess source.Source) {
	dlog.VerifInstall(sourceProcess)
	wg.Done()
}
func c03dClientStart(c *clients.VerifBaseClient, ctx context.Context, statsCh <-chan string) int {
	c03dClient = c
	return 0
}
func c03dStat(name string) (os.FileInfo, error)          { return nil, errors.New("no such file") }
func c03dExit(code int)                                   { panic(c03dExited{code}) }
func c03dUser() string                                    { return "u" }
func c03dInterruptCh(ctx context.Context) <-chan string { return nil }

var c03dNumbers = []string{"0", "7", "250"}

func c03dDigits(name string, n int) string {
	if n == 0 {
		return "0"
	}
	return c03dNumbers[verifrt.Choose(name, len(c03dNumbers))]
}

func c03dValue(s string) int {
	v := 0
	for i := 0; i < len(s); i++ {
		v = v*10 + int(s[i]-'0')
	}
	return v
}

// VerifC03dCommandLine: the real main() of dgrep on a command line with a
// pattern of n arbitrary bytes (given as --regex or its alias --grep), optional
// --invert and --before/--after/--max numbers (each one of 0, 7, 250 when
// `digits` is 1), the file as --files or as positional argument: what the server is
// asked to do is exactly what the command line says.
func VerifC03dCommandLine(n, digits int) {
	pat := verifrt.String("re", n)
	before, after, max := c03dDigits("before", digits), c03dDigits("after", digits), c03dDigits("max", digits)
	argv := []string{"dgrep", "--cfg", "none"}
	if verifrt.Bool("alias") {
		argv = append(argv, "--grep", pat)
	} else {
		argv = append(argv, "--regex", pat)
	}
	invert := verifrt.Bool("invert")
	if invert {
		argv = append(argv, "--invert")
	}
	if digits > 0 {
		argv = append(argv, "--before", before, "--after="+after, "-max", max)
	}
	positional := verifrt.Bool("positional")
	if positional {
		argv = append(argv, "/var/log/x.log")
	} else {
		argv = append(argv, "--files", "/var/log/x.log")
		argv = argv[:len(argv):len(argv)]
	}
	os.Setenv("HOME", "/home/u")
	os.Args = argv
	flag.CommandLine = flag.NewFlagSet(argv[0], flag.PanicOnError)
	c03dClient = nil
	rejected := false
	func() {
		defer func() {
			if r := recover(); r != nil {
				if _, ok := r.(c03dExited); ok {
					return
				}
				rejected = true // FatalPanic: the client refuses the pattern
				c03dWhy = r
			}
		}()
		main()
	}()
	if rejected {
		if e, ok := c03dWhy.(error); ok {
			verifrt.Observe("why", e.Error())
		} else if e, ok := c03dWhy.(string); ok {
			verifrt.Observe("why", e)
		}
		verifrt.Reach("client-rejects")
		return
	}
	verifrt.Assert(c03dClient != nil, "dgrep ended without starting its client")
	v := clients.VerifServerSide(c03dClient)
	verifrt.Assert(len(v.Reads) == 1, "the server did not execute exactly one read for the one file given")
	if len(v.Reads) != 1 {
		return
	}
	g := v.Reads[0]
	verifrt.Assert(g.Glob == "/var/log/x.log", "the file differs from the command line")
	verifrt.Assert(g.Mode == omode.CatClient || g.Mode == omode.GrepClient, "dgrep runs as a follow on the server")
	str, flags, _, _ := g.Re.VerifParts()
	if pat == "" || pat == "." || pat == ".*" {
		verifrt.Assert(len(flags) == 1 && flags[0] == regex.Noop, "a match-everything pattern is not a no-op filter on the server")
		verifrt.Reach("noop")
	} else {
		verifrt.Assert(str == pat, "the server filters with another pattern than the command line gives")
		want := regex.Default
		if invert {
			want = regex.Invert
		}
		verifrt.Assert(len(flags) == 1 && flags[0] == want, "the polarity on the server differs from --invert on the command line")
		verifrt.Reach("pattern-compared")
	}
	if digits > 0 {
		verifrt.Assert(g.Ltx.BeforeContext == c03dValue(before), "--before does not reach the server unchanged")
		verifrt.Assert(g.Ltx.AfterContext == c03dValue(after), "--after does not reach the server unchanged")
		verifrt.Assert(g.Ltx.MaxCount == c03dValue(max), "--max does not reach the server unchanged")
		verifrt.Reach("context-compared")
	} else {
		verifrt.Assert(g.Ltx.BeforeContext == 0 && g.Ltx.AfterContext == 0 && g.Ltx.MaxCount == 0, "context options invented")
	}
}
