//verif:dest internal/io/fs/zz_verif_c03.go
//verif:replace@C03a regexp.Compile = c03Compile
//verif:replace@C03b regexp.Compile = c03Compile
//verif:replace@C03a (*regexp.Regexp).Match = c03Match
//verif:replace@C03b (*regexp.Regexp).Match = c03Match
//verif:replace@C07h regexp.Compile = c03Compile
//verif:replace@C12f regexp.Compile = c03Compile
//verif:replace@C12f (*regexp.Regexp).Match = c03Match
//verif:replace@C07h (*regexp.Regexp).Match = c03Match

package fs

import (
	"context"
	"regexp"

	"github.com/mimecast/dtail/internal/io/dlog"
	"github.com/mimecast/dtail/internal/io/line"
	"github.com/mimecast/dtail/internal/lcontext"
	"github.com/mimecast/dtail/internal/regex"
	"github.com/mimecast/dtail/internal/source"
	"github.com/mimecast/dtail/internal/verifrt"
)

// The regexp verdict on line i is the symbolic bit c03M[i]: line i is
// "<'0'+i><'x' if m_i else 'y'>\n" and the pattern is "x". Under the engine
// regexp is stubbed by the test "second byte is 'x'" (RE2 is outside the
// claim); natively the real regexp runs and gives the same verdicts.
var c03M []bool

func c03Compile(expr string) (*regexp.Regexp, error) { return new(regexp.Regexp), nil }
func c03Match(re *regexp.Regexp, b []byte) bool      { return len(b) > 1 && b[1] == 'x' }

// refGrep: the reference (grep semantics as stated in C03): returns the indices
// of the output lines in order.
func refGrep(sel []bool, before, after, max int) []int {
	n := len(sel)
	out := make([]bool, n)
	taken := 0
	cutoff := n // nothing at or after cutoff is output
	for i := 0; i < n; i++ {
		if !sel[i] {
			continue
		}
		if max > 0 && taken == max {
			cutoff = i
			break
		}
		taken++
		for j := i - before; j <= i+after; j++ {
			if j >= 0 && j < n {
				out[j] = true
			}
		}
	}
	var res []int
	for i := 0; i < n && i < cutoff; i++ {
		if out[i] {
			res = append(res, i)
		}
	}
	return res
}

func c03Run(n, B, A, X int, re regex.Regex) (idx []int, counts []uint64) {
	var content []byte
	for i := 0; i < n; i++ {
		content = append(content, byte('0'+i), verifrt.IteByte(c03M[i], 'x', 'y'), '\n')
	}
	path := VerifProvide(content)
	lines := make(chan *line.Line, 100)
	cat := NewCatFile(path, "f", make(chan string, 10))
	err := cat.Start(context.Background(), lcontext.LContext{AfterContext: A, BeforeContext: B, MaxCount: X}, lines, re)
	verifrt.Assert(err == nil, "Start failed")
	for len(lines) > 0 {
		l := <-lines
		b := l.Content.Bytes()
		verifrt.Assert(len(b) == 3 && b[2] == '\n', "line content altered")
		idx = append(idx, int(b[0]-'0'))
		counts = append(counts, l.Count)
	}
	return
}

func c03Check(got []int, counts []uint64, want []int) {
	verifrt.Assert(len(got) == len(want), "dgrep output has a different number of lines than grep semantics prescribe")
	for i := range want {
		verifrt.Assert(got[i] == want[i], "dgrep output line differs from the line grep semantics prescribe")
		verifrt.Assert(counts[i] == uint64(want[i]+1), "line number label is not the line's position in the file")
	}
}

// VerifC03Grep: n lines with symbolic match bits, symbolic invert flag, concrete context options.
func VerifC03Grep(n, B, A, X int) {
	dlog.VerifInstall(source.Server)
	c03M = make([]bool, n)
	for i := range c03M {
		c03M[i] = verifrt.Bool("m")
	}
	flag := regex.Default
	inv := verifrt.Bool("invert")
	if inv {
		flag = regex.Invert
	}
	re, err := regex.New("x", flag)
	verifrt.Assert(err == nil, "regex.New failed")
	got, counts := c03Run(n, B, A, X, re)
	sel := make([]bool, n)
	for i := range sel {
		sel[i] = c03M[i] != inv
	}
	// a negative option value switches that option off (it counts as 0), the others stay in force
	clamp := func(v int) int {
		if v < 0 {
			return 0
		}
		return v
	}
	want := refGrep(sel, clamp(B), clamp(A), clamp(X))
	c03Check(got, counts, want)
	verifrt.Reach("checked")
	if X > 0 && len(want) < n && len(want) > 0 {
		verifrt.Reach("some-lines-not-output")
	}
}

// VerifC03Noop: the patterns '', '.' and '.*' select every line, whatever the flag.
func VerifC03Noop(n, B, A, X int) {
	dlog.VerifInstall(source.Server)
	c03M = make([]bool, n)
	for i := range c03M {
		c03M[i] = verifrt.Bool("m") // must be irrelevant
	}
	pats := []string{"", ".", ".*"}
	flag := regex.Default
	if verifrt.Bool("invert") {
		flag = regex.Invert
	}
	re, err := regex.New(pats[verifrt.Choose("pattern", 3)], flag)
	verifrt.Assert(err == nil, "regex.New failed")
	got, counts := c03Run(n, B, A, X, re)
	sel := make([]bool, n)
	for i := range sel {
		sel[i] = true
	}
	c03Check(got, counts, refGrep(sel, B, A, X))
	verifrt.Reach("checked")
}
