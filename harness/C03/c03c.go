//verif:dest internal/regex/zz_verif_c03c.go

package regex

import (
	"regexp"

	"github.com/mimecast/dtail/internal/verifrt"
)

var c03cPatterns = []string{"^ERROR$", "ERROR", "^ER", "OR$", "E.R", "a b", "^a\\.b$", "(a|b)E", "[[:upper:]]+ ", "^$", "\\AE\\z", "E*R", "^(ER|OR)$", "(?i)er", "(?m)^E$", "\\bE\\b", "."}

// VerifC03cVerdict: the line filter dgrep applies (regex.Regex.Match /
// MatchString, as used by the file readers) selects a line exactly when the
// user's pattern matches it under regexp semantics (RE2, unanchored unless the
// pattern anchors), negated by --invert: concrete patterns, every subject of
// n bytes from a small alphabet. The reference is the regexp package itself,
// called directly; both run in the interpreter.
func VerifC03cVerdict(pat, n int) {
	p := c03cPatterns[pat]
	invert := verifrt.Bool("invert")
	flag := Default
	if invert {
		flag = Invert
	}
	re, err := New(p, flag)
	verifrt.Assert(err == nil, "pattern rejected")
	ref := regexp.MustCompile(p)
	subject := verifrt.StringIn("s", n, "EROab. \n")
	want := ref.MatchString(subject) != invert
	if p == "" || p == "." || p == ".*" {
		want = true // C03: these patterns select every line (whatever the polarity)
	}
	verifrt.Assert(re.MatchString(subject) == want, "MatchString selects a line the pattern does not select (or the reverse)")
	verifrt.Assert(re.Match([]byte(subject)) == want, "Match selects a line the pattern does not select (or the reverse)")
	// the same filter after the trip to the server
	ser, err := re.Serialize()
	verifrt.Assert(err == nil, "Serialize failed")
	sre, err := Deserialize(ser)
	verifrt.Assert(err == nil, "Deserialize failed")
	verifrt.Assert(sre.Match([]byte(subject)) == want, "the server side filter selects differently")
	verifrt.Reach("compared")
}
