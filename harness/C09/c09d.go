//verif:dest internal/server/zz_verif_c09d.go
//verif:replace@C09d path/filepath.Glob = c09dGlob

package server

import (
	"context"
	"encoding/base64"
	"time"

	"github.com/mimecast/dtail/internal/config"
	"github.com/mimecast/dtail/internal/io/dlog"
	"github.com/mimecast/dtail/internal/source"
	"github.com/mimecast/dtail/internal/verifrt"

	gossh "golang.org/x/crypto/ssh"
)

var c09dFileLayerReached bool

// reaching the file layer (the glob of a read command) is what a health session must never do
func c09dGlob(pattern string) ([]string, error) {
	c09dFileLayerReached = true
	return nil, nil
}

// VerifC09dHealthSession: a session of a user whose name has the length of
// the health user's name (all byte values) sends a cat command: the file layer
// is reached exactly if the user is not the health user.
func VerifC09dHealthSession(ulen int) {
	dlog.VerifInstall(source.Server)
	config.Server.Permissions = config.Permissions{Default: []string{"^/.*$"}}
	c09dFileLayerReached = false
	name := verifrt.String("user", ulen)
	cmd := "cat:quiet=true /etc/passwd regex:noop "
	wire := "protocol 4.1 base64 " + base64.StdEncoding.EncodeToString([]byte(cmd)) + ";"
	c := &c14Conn{id: 0, kind: 4, user: name, input: []byte(wire), closed: make(chan struct{}), chans: make(chan gossh.NewChannel, 2)}
	s := &Server{catLimiter: make(chan struct{}, 2), tailLimiter: make(chan struct{}, 2), sshServerConfig: &gossh.ServerConfig{}}
	ctx, cancel := context.WithCancel(context.Background())
	go s.handleConnection(ctx, c)
	verifrt.Sleep(time.Second)
	nc := &c14NewChan{conn: c, ctype: "session", reqs: make(chan *gossh.Request, 4), ch: &c14Channel{c}}
	c.chans <- nc
	nc.reqs <- &gossh.Request{Type: "shell"}
	verifrt.Sleep(20 * time.Second)
	isHealth := name == config.HealthUser
	verifrt.Assert(c09dFileLayerReached == !isHealth, "a health session reached the file layer (or a normal session was not served)")
	if isHealth {
		verifrt.Reach("health-restricted")
	} else {
		verifrt.Reach("normal-served")
	}
	c.Close()
	close(c.chans)
	cancel()
}
