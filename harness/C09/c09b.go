//verif:dest internal/server/zz_verif_c09b.go
//verif:replace net.LookupIP = c09Lookup
//verif:replace (net.IP).String = c09IPString

package server

import (
	"errors"
	"net"

	"github.com/mimecast/dtail/internal/config"
	"github.com/mimecast/dtail/internal/io/dlog"
	"github.com/mimecast/dtail/internal/source"
	"github.com/mimecast/dtail/internal/verifrt"
)

type c09Addr string

func (a c09Addr) Network() string { return "tcp" }
func (a c09Addr) String() string  { return string(a) }

type c09Meta struct {
	user   string
	remote c09Addr
}

func (m c09Meta) User() string          { return m.user }
func (m c09Meta) SessionID() []byte     { return nil }
func (m c09Meta) ClientVersion() []byte { return nil }
func (m c09Meta) ServerVersion() []byte { return nil }
func (m c09Meta) RemoteAddr() net.Addr  { return m.remote }
func (m c09Meta) LocalAddr() net.Addr   { return c09Addr("0.0.0.0:2222") }

var c09IPs = []string{"10.0.0.1", "10.0.0.2"}

// lookup results per host name: arbitrary (error, or any subset of the two addresses)
var c09Resolve = map[string]int{}

func c09Lookup(host string) ([]net.IP, error) {
	switch c09Resolve[host] {
	case 0:
		return nil, errors.New("no such host")
	case 1:
		return []net.IP{{10, 0, 0, 1}}, nil
	case 2:
		return []net.IP{{10, 0, 0, 2}}, nil
	default:
		return []net.IP{{10, 0, 0, 1}, {10, 0, 0, 2}}, nil
	}
}

func c09IPString(ip net.IP) string {
	if len(ip) == 4 && ip[0] == 10 && ip[3] == 1 {
		return "10.0.0.1"
	}
	return "10.0.0.2"
}

func c09Resolves(host, ip string) bool {
	r := c09Resolve[host]
	return (ip == "10.0.0.1" && (r == 1 || r == 3)) || (ip == "10.0.0.2" && (r == 2 || r == 3))
}

// VerifC09bPassword: password authentication for user names of ulen bytes and
// passwords of plen bytes (the lengths of the three service users included).
func VerifC09bPassword(ulen, plen int) {
	dlog.VerifInstall(source.Server)
	config.Server.Permissions = config.Permissions{Default: []string{"^/.*$"}}
	name := verifrt.String("user", ulen)
	pw := verifrt.String("pw", plen)
	job2 := verifrt.String("job2", 4)
	var s1, s2 config.Scheduled
	s1.Name, s1.AllowFrom = "job1", []string{"hostA"}
	s2.Name, s2.AllowFrom = job2, []string{"hostB", "hostC"}
	var c1 config.Continuous
	c1.Name, c1.AllowFrom = "cont", []string{"hostC"}
	config.Server.Schedule = []config.Scheduled{s1, s2}
	config.Server.Continuous = []config.Continuous{c1}
	for _, h := range []string{"hostA", "hostB", "hostC"} {
		c09Resolve[h] = verifrt.Choose("resolve-"+h, 4)
	}
	ip := c09IPs[verifrt.Choose("remote", 2)]
	meta := c09Meta{user: name, remote: c09Addr(ip + ":5555")}

	s := &Server{}
	perms, err := s.Callback(meta, []byte(pw))
	granted := err == nil
	verifrt.Assert(perms == nil, "unexpected permissions object")

	want := false
	switch name {
	case config.HealthUser:
		want = pw == config.HealthUser
	case config.ScheduleUser:
		want = (pw == "job1" && c09Resolves("hostA", ip)) || (pw == job2 && (c09Resolves("hostB", ip) || c09Resolves("hostC", ip)))
	case config.ContinuousUser:
		want = pw == "cont" && c09Resolves("hostC", ip)
	}
	verifrt.Assert(granted == want, "password authentication decision differs from the rule (health password / job name + allow list)")
	if granted {
		verifrt.Reach("granted")
	}
	verifrt.Reach("decided")
}
