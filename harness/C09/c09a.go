//verif:dest internal/ssh/server/zz_verif_c09a.go
//verif:replace golang.org/x/crypto/ssh.parseAuthorizedKey = c09ParseKey
//verif:replace golang.org/x/crypto/ssh.FingerprintSHA256 = c09Fingerprint

package server

import (
	"bytes"
	"errors"

	"github.com/mimecast/dtail/internal/config"
	"github.com/mimecast/dtail/internal/io/dlog"
	"github.com/mimecast/dtail/internal/source"
	user "github.com/mimecast/dtail/internal/user/server"
	"github.com/mimecast/dtail/internal/verifrt"

	gossh "golang.org/x/crypto/ssh"
)

// Toy keys: the key field "K<d>" is key number d (base64 + key blob parsing
// of x/crypto is outside; the authorized_keys line scanner is the real one).
type c09Key struct{ id byte }

func (k c09Key) Type() string                                 { return "toy" }
func (k c09Key) Marshal() []byte                              { return []byte{'K', k.id} }
func (k c09Key) Verify(data []byte, sig *gossh.Signature) error { return nil }

func c09ParseKey(in []byte) (gossh.PublicKey, string, error) {
	in = bytes.TrimSpace(in)
	i := bytes.IndexAny(in, " \t")
	if i == -1 {
		i = len(in)
	}
	f := in[:i]
	if len(f) != 2 || f[0] != 'K' || f[1] < '0' || f[1] > '9' {
		return nil, "", errors.New("not a key")
	}
	return c09Key{f[1]}, string(bytes.TrimSpace(in[i:])), nil
}

func c09Fingerprint(k gossh.PublicKey) string { return "fp" }

// VerifC09aKeys: an authorized_keys file of n lines, each of a symbolic kind.
func VerifC09aKeys(n int) {
	dlog.VerifInstall(source.Server)
	config.Server.Permissions = config.Permissions{Default: []string{"^/.*$"}}
	u, err := user.New("alice", "1.2.3.4:5")
	verifrt.Assert(err == nil, "user")

	var file []byte
	listed := map[byte]bool{}
	lastKeyLine, lastNonEmpty := -1, -1
	for i := 0; i < n; i++ {
		id := verifrt.ByteIn("id", "123")
		c := verifrt.StringIn("cm", 2, " \tabc#K1,=\"")
		var line string
		switch verifrt.Choose("kind", 7) {
		case 0:
			line = "" // blank
		case 1:
			line = " \t " // whitespace only
		case 2:
			line = "#" + c // comment
		case 3:
			line = "toy K" + string([]byte{id})
		case 4:
			line = "toy K" + string([]byte{id}) + " " + c
		case 5:
			line = "no-pty,from=\"h\" toy K" + string([]byte{id}) + " me"
		default:
			line = "  toy\tK" + string([]byte{id}) + "\t"
		}
		isKey := len(line) > 3 && line[0] != '#' && !(line[0] == ' ' && line[1] == '\t')
		if isKey {
			listed[id] = true
			lastKeyLine = i
		}
		lastNonEmpty = i
		file = append(file, line...)
		switch verifrt.Choose("eol", 3) {
		case 0:
			file = append(file, '\n')
		case 1:
			file = append(file, '\r', '\n')
		default:
			if i == n-1 {
				// no final newline
			} else {
				file = append(file, '\n')
			}
		}
	}
	offered := verifrt.ByteIn("offered", "123")
	perms, verr := verifyAuthorizedKeys(u, file, c09Key{offered})
	got := verr == nil && perms != nil
	want := listed[offered]
	if got == want {
		verifrt.Reach("decided")
		if got {
			verifrt.Reach("accepted")
		}
		return
	}
	// known: lines without a key after the last key line make ParseAuthorizedKey
	// return "no key found", and every key is rejected
	trailing := lastKeyLine >= 0 && lastKeyLine < lastNonEmpty
	if trailing && !got && want {
		verifrt.Assert(false, "a listed key is rejected because lines without a key follow the last key line (the defect repaired by the C09 fix commit is back)")
	}
	if got && !want {
		verifrt.Assert(false, "a key that is not listed in the user's authorized_keys is accepted")
	}
	verifrt.Assert(false, "a key listed in the user's authorized_keys is rejected")
}
