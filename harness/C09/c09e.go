//verif:dest internal/ssh/server/zz_verif_c09e.go
//verif:replace@C09e os.Getwd = c09eGetwd
//verif:replace@C09e os.Stat = c09eStat
//verif:replace@C09e os.ReadFile = c09eReadFile
//verif:replace@C09e os/user.Lookup = c09eLookup
//verif:replace@C09e os.Open = c09eOpen
//verif:replace@C09e os.OpenFile = c09eOpenFile
//verif:replace@C09e (*os.File).Read = c09eRead
//verif:replace@C09e (*os.File).Close = c09eClose
//verif:replace@C09e (*os.File).Stat = c09eFStat
//verif:replace@C14f os.Getwd = c09eGetwd
//verif:replace@C14f os.Stat = c09eStat
//verif:replace@C14f os.ReadFile = c09eReadFile
//verif:replace@C14f os/user.Lookup = c09eLookup
//verif:replace@C14f os.Open = c09eOpen
//verif:replace@C14f os.OpenFile = c09eOpenFile
//verif:replace@C14f (*os.File).Read = c09eRead
//verif:replace@C14f (*os.File).Close = c09eClose
//verif:replace@C14f (*os.File).Stat = c09eFStat

package server

import (
	"errors"
	"io"
	iofs "io/fs"
	"net"
	"time"
	"os"
	osuser "os/user"

	"github.com/mimecast/dtail/internal/config"
	"github.com/mimecast/dtail/internal/io/dlog"
	"github.com/mimecast/dtail/internal/source"
	"github.com/mimecast/dtail/internal/verifrt"

	gossh "golang.org/x/crypto/ssh"
)

// the machine: dserver runs in /srv/dtail as user "dserver" (HOME=/home/dserver);
// alice has an OS account and her own ~/.ssh/authorized_keys, bob's keys are in the
// server's cache directory, mallory has neither; the run user has keys of his own.
var c09eFiles = map[string]string{
	"/srv/dtail/cache/bob.authorized_keys": "toy K2 bob\n",
	"/home/alice/.ssh/authorized_keys":     "toy K1 alice\n",
	"/home/dserver/.ssh/authorized_keys":   "toy K3 ops\n",
}
// carol's cached key file exists but cannot be read (a directory in its place, wrong owner)
var c09eUnreadable = map[string]bool{"/srv/dtail/cache/carol.authorized_keys": true}

// VerifC09Key: a key of the machine model for harnesses of other packages
func VerifC09Key(id byte) gossh.PublicKey { return c09Key{id} }

var c09eHomes = map[string]string{"alice": "/home/alice", "dserver": "/home/dserver"}

func c09eGetwd() (string, error) { return "/srv/dtail", nil }
func c09eStat(name string) (os.FileInfo, error) {
	if c09eUnreadable[name] {
		return c09eInfo{0}, nil
	}
	if c, ok := c09eFiles[name]; ok {
		return c09eInfo{int64(len(c))}, nil
	}
	return nil, errors.New("stat " + name + ": no such file or directory")
}
func c09eReadFile(name string) ([]byte, error) {
	if c09eUnreadable[name] {
		return nil, errors.New("read " + name + ": is a directory")
	}
	if c, ok := c09eFiles[name]; ok {
		return []byte(c), nil
	}
	return nil, errors.New("open " + name + ": no such file or directory")
}
// however the callback reads the file (os.ReadFile, or open/read/close), it sees the same machine
var c09eOpenFiles = map[*os.File]*c09eHandle{}

type c09eHandle struct {
	name string
	off  int
}

func c09eOpen(name string) (*os.File, error) { return c09eOpenFile(name, os.O_RDONLY, 0) }
func c09eOpenFile(name string, flag int, perm os.FileMode) (*os.File, error) {
	if c09eUnreadable[name] {
		return nil, &iofs.PathError{Op: "open", Path: name, Err: iofs.ErrPermission}
	}
	if _, ok := c09eFiles[name]; !ok {
		return nil, &iofs.PathError{Op: "open", Path: name, Err: iofs.ErrNotExist}
	}
	f := new(os.File)
	c09eOpenFiles[f] = &c09eHandle{name: name}
	return f, nil
}
func c09eRead(f *os.File, p []byte) (int, error) {
	h := c09eOpenFiles[f]
	c := c09eFiles[h.name]
	if h.off >= len(c) {
		return 0, io.EOF
	}
	n := copy(p, c[h.off:])
	h.off += n
	return n, nil
}
func c09eClose(f *os.File) error { return nil }
func c09eFStat(f *os.File) (os.FileInfo, error) {
	return c09eInfo{int64(len(c09eFiles[c09eOpenFiles[f].name]))}, nil
}
func c09eLookup(name string) (*osuser.User, error) {
	if h, ok := c09eHomes[name]; ok {
		return &osuser.User{Username: name, HomeDir: h}, nil
	}
	return nil, errors.New("user: unknown user " + name)
}

type c09eInfo struct{ size int64 }

func (i c09eInfo) Name() string        { return "authorized_keys" }
func (i c09eInfo) Size() int64         { return i.size }
func (i c09eInfo) Mode() iofs.FileMode { return 0o600 }
func (i c09eInfo) ModTime() time.Time  { return time.Time{} }
func (i c09eInfo) IsDir() bool         { return false }
func (i c09eInfo) Sys() interface{}    { return nil }

type c09eMeta struct{ user string }

func (m c09eMeta) User() string          { return m.user }
func (m c09eMeta) SessionID() []byte     { return nil }
func (m c09eMeta) ClientVersion() []byte { return nil }
func (m c09eMeta) ServerVersion() []byte { return nil }
func (m c09eMeta) RemoteAddr() net.Addr  { return c09eAddr("10.0.0.9:4000") }
func (m c09eMeta) LocalAddr() net.Addr   { return c09eAddr("0.0.0.0:2222") }

type c09eAddr string

func (a c09eAddr) Network() string { return "tcp" }
func (a c09eAddr) String() string  { return string(a) }

var c09eUsers = []string{"alice", "bob", "mallory", "dserver", config.ScheduleUser, config.ContinuousUser, config.HealthUser}

// VerifC09eWhoseKeys: the real PublicKeyCallback (which authorized-keys file
// is consulted for a login: the server's cache, then the user's own home) for
// logins of users with an OS account, with cached keys only, with neither, and
// of the service users, each offering one of the three keys that exist on the
// machine: a login is granted exactly if the offered key is listed for *that*
// user.
func VerifC09eWhoseKeys() {
	dlog.VerifInstall(source.Server)
	config.Common.CacheDir = "cache"
	config.Server.Permissions = config.Permissions{Default: []string{"^/.*$"}}
	os.Setenv("HOME", "/home/dserver")
	c09eOpenFiles = map[*os.File]*c09eHandle{}
	// an earlier login attempt of another user (or none) must not change the decision
	if before := verifrt.Choose("earlier-login", len(c09eUsers)+1); before > 0 {
		PublicKeyCallback(c09eMeta{c09eUsers[before-1]}, c09Key{verifrt.ByteIn("offered-earlier", "123")})
		verifrt.Reach("second-login")
	}
	name := c09eUsers[verifrt.Choose("user", len(c09eUsers))]
	key := verifrt.ByteIn("offered", "123")
	perms, err := PublicKeyCallback(c09eMeta{name}, c09Key{key})
	granted := err == nil && perms != nil
	want := name == "alice" && key == '1' || name == "bob" && key == '2' || name == "dserver" && key == '3'
	verifrt.Assert(granted == want, "a public key login is granted although the offered key is not listed for that user (or refused although it is)")
	if granted {
		verifrt.Reach("granted")
	} else {
		verifrt.Reach("refused")
	}
}
