//verif:dest internal/server/handlers/zz_verif_c09c.go
//verif:replace@C09c (*encoding/base64.Encoding).DecodeString = c09cDecode

package handlers

import (
	"encoding/base64"
	"time"

	"github.com/mimecast/dtail/internal/io/dlog"
	"github.com/mimecast/dtail/internal/source"
	"github.com/mimecast/dtail/internal/verifrt"
)

var c09cPayload string

func c09cDecode(enc *base64.Encoding, s string) ([]byte, error) {
	if s == "@" {
		return []byte(c09cPayload), nil
	}
	return enc.DecodeString(s)
}

// VerifC09cHealth: whatever command a health session sends, it gets "OK" only
// for "health", never file content, never a read or map command.
func VerifC09cHealth(word, n int) {
	dlog.VerifInstall(source.Server)
	h := VerifNewHealthHandler()
	words := []string{"health", "cat", "grep", "tail", "map", ""}
	c09cPayload = words[word] + verifrt.StringIn("t", n, " :=/.*abcdefghijklmnopqrstuvwxyz0123456789")
	h.Write([]byte("protocol 4.1 base64 @;"))
	verifrt.Sleep(12 * time.Second)
	verifrt.Assert(len(h.lines) == 0 && len(h.maprMessages) == 0, "a health session produced file or mapreduce data")
	verifrt.Assert(h.aggregate == nil, "a health session started a mapreduce")
	ok := false
	for len(h.serverMessages) > 0 {
		m := <-h.serverMessages
		if m == "OK" {
			ok = true
		}
	}
	isHealth := c09cPayload == "health" || (len(c09cPayload) > 6 && c09cPayload[:7] == "health ") || (len(c09cPayload) > 6 && c09cPayload[:7] == "health:")
	verifrt.Assert(!ok || isHealth, "OK answered to something that is not the health command")
	if ok {
		verifrt.Reach("ok")
	}
	verifrt.Reach("checked")
}
