//verif:dest internal/verifh/selftest/selftest.go

// Package selftest: small programs with known results, run by the gosmt
// interpreter (translator validation; `gosmt selftest`).
package selftest

import (
	"bufio"
	"bytes"
	"context"
	"encoding/base64"
	"errors"
	"fmt"
	"io"
	"io/fs"
	"os"
	"regexp"
	"sort"
	"strconv"
	"strings"
	"sync"
	"time"

	"github.com/mimecast/dtail/internal/verifrt"
)

func eq(got, want string, what string) {
	if got != want {
		verifrt.Observe(what, "got", got, "want", want)
	}
	verifrt.Assert(got == want, what)
}

type rd struct {
	b   []byte
	off int
}

func (r *rd) Read(p []byte) (int, error) {
	if r.off >= len(r.b) {
		return 0, io.EOF
	}
	n := copy(p, r.b[r.off:])
	r.off += n
	return n, nil
}

func TestBufioDbg() {
	r := bufio.NewReaderSize(&rd{b: []byte("ab")}, 16)
	verifrt.Observe("size", r.Size(), "buffered", r.Buffered())
	b, err := r.ReadByte()
	verifrt.Observe("b", b, "err", err == nil, "buffered", r.Buffered())
}

func TestBufio() {
	r := bufio.NewReader(&rd{b: []byte("ab\ncd")})
	var got []byte
	for {
		b, err := r.ReadByte()
		if err != nil {
			verifrt.Assert(err == io.EOF, "err is EOF")
			break
		}
		got = append(got, b)
	}
	eq(string(got), "ab\ncd", "bufio.ReadByte")
	sc := bufio.NewScanner(&rd{b: []byte("x\nyy\n\nz")})
	var ls []string
	for sc.Scan() {
		ls = append(ls, sc.Text())
	}
	eq(strings.Join(ls, "|"), "x|yy||z", "bufio.Scanner")
}

func TestBytesBuffer() {
	var b bytes.Buffer
	b.WriteString("hello")
	b.WriteByte(' ')
	b.Write([]byte("world"))
	eq(b.String(), "hello world", "bytes.Buffer")
	verifrt.Assert(b.Len() == 11, "len")
	b.Reset()
	verifrt.Assert(b.Len() == 0, "reset")
	b.Grow(128)
	b.WriteString("x")
	eq(b.String(), "x", "after grow")
	p := make([]byte, 3)
	b.WriteString("yz12")
	n := copy(p, b.Bytes())
	eq(string(p[:n]), "xyz", "copy from Bytes")
}

func TestStrings() {
	eq(strings.Join(strings.Split("a,b,,c", ","), "|"), "a|b||c", "Split")
	eq(strings.Join(strings.SplitN("a b c d", " ", 2), "|"), "a|b c d", "SplitN")
	eq(strings.Join(strings.Fields("  a  b\tc\n"), "|"), "a|b|c", "Fields")
	eq(strings.ToLower("AbC"), "abc", "ToLower")
	eq(strings.ToUpper("AbC"), "ABC", "ToUpper")
	eq(strings.TrimSpace("  x y "), "x y", "TrimSpace")
	eq(strings.ReplaceAll("a-b-c", "-", "+"), "a+b+c", "ReplaceAll")
	eq(strings.Repeat("ab", 3), "ababab", "Repeat")
	eq(strings.TrimSuffix("file.gz", ".gz"), "file", "TrimSuffix")
	verifrt.Assert(strings.HasPrefix("regex:x", "regex"), "HasPrefix")
	verifrt.Assert(strings.HasSuffix("a.zst", ".zst"), "HasSuffix")
	verifrt.Assert(strings.Contains("hello", "ell"), "Contains")
	verifrt.Assert(!strings.Contains("hello", "elx"), "!Contains")
	verifrt.Assert(strings.Index("hello", "l") == 2, "Index")
	verifrt.Assert(strings.EqualFold("SeLeCt", "select"), "EqualFold")
	var sb strings.Builder
	sb.WriteString("a")
	sb.WriteByte('b')
	sb.WriteString("c")
	eq(sb.String(), "abc", "Builder")
	sb.Reset()
	eq(sb.String(), "", "Builder reset")
}

func TestStrconv() {
	n, err := strconv.Atoi("1234")
	verifrt.Assert(err == nil && n == 1234, "Atoi")
	_, err = strconv.Atoi("12x")
	verifrt.Assert(err != nil, "Atoi error")
	n, err = strconv.Atoi("-7")
	verifrt.Assert(err == nil && n == -7, "Atoi neg")
	eq(strconv.Itoa(-45), "-45", "Itoa")
	f, err := strconv.ParseFloat("2.5", 64)
	verifrt.Assert(err == nil && f == 2.5, "ParseFloat")
	eq(fmt.Sprintf("%3d|%v|%s|%d|%q|%t|%5s|%-4s|", 7, uint64(42), "x", -3, "q", true, "ab", "cd"), "  7|42|x|-3|\"q\"|true|   ab|cd  |", "Sprintf")
	eq(fmt.Sprintf("%v %v", []string{"a", "b"}, errors.New("boom")), "[a b] boom", "Sprintf slice/error")
	eq(fmt.Sprintf("%v", 2.5), "2.5", "Sprintf float")
	eq(fmt.Sprint("a", 1, 2, "b"), "a1 2b", "Sprint")
	e := fmt.Errorf("wrap %s: %w", "x", io.EOF)
	eq(e.Error(), "wrap x: EOF", "Errorf")
}

func TestBase64() {
	enc := base64.StdEncoding.EncodeToString([]byte("grep:x=1 /var/log regex:default a b"))
	dec, err := base64.StdEncoding.DecodeString(enc)
	verifrt.Assert(err == nil, "decode ok")
	eq(string(dec), "grep:x=1 /var/log regex:default a b", "base64 round trip")
	_, err = base64.StdEncoding.DecodeString("!!!")
	verifrt.Assert(err != nil, "decode error")
}

type shape interface{ Area() int }
type sq struct{ s int }
type rect struct{ w, h int }

func (s sq) Area() int    { return s.s * s.s }
func (r *rect) Area() int { return r.w * r.h }

func TestLanguage() {
	// maps
	m := map[string]int{}
	m["a"] = 1
	m["b"] = 2
	m["a"] += 5
	verifrt.Assert(m["a"] == 6 && len(m) == 2, "map update")
	delete(m, "b")
	_, ok := m["b"]
	verifrt.Assert(!ok && len(m) == 1, "map delete")
	// slices and aliasing
	s := []int{1, 2, 3, 4}
	t := s[1:3]
	t[0] = 9
	verifrt.Assert(s[1] == 9 && len(t) == 2 && cap(t) == 3, "slice aliasing")
	t = append(t, 7)
	verifrt.Assert(s[3] == 7, "append within capacity aliases")
	t = append(t, 8)
	t[0] = 1
	verifrt.Assert(s[1] == 9, "append beyond capacity copies")
	// structs are values
	type pt struct{ x, y int }
	a := pt{1, 2}
	b := a
	b.x = 5
	verifrt.Assert(a.x == 1 && b.x == 5, "struct copy")
	arr := [3]int{1, 2, 3}
	brr := arr
	brr[0] = 7
	verifrt.Assert(arr[0] == 1, "array copy")
	// interfaces and methods
	var sh shape = sq{3}
	verifrt.Assert(sh.Area() == 9, "value method")
	sh = &rect{2, 5}
	verifrt.Assert(sh.Area() == 10, "pointer method")
	_, isSq := sh.(sq)
	verifrt.Assert(!isSq, "type assertion")
	switch v := sh.(type) {
	case *rect:
		verifrt.Assert(v.w == 2, "type switch")
	default:
		verifrt.Assert(false, "type switch default")
	}
	// closures
	ctr := 0
	inc := func() int { ctr++; return ctr }
	inc()
	inc()
	verifrt.Assert(ctr == 2, "closure capture")
	// defer / recover
	verifrt.Assert(recovers() == "recovered: boom", "recover")
	verifrt.Assert(idxPanics(), "index panic recovered")
	// integer semantics
	var u8 uint8 = 250
	u8 += 10
	verifrt.Assert(u8 == 4, "uint8 wrap")
	var i8 int8 = 127
	i8++
	verifrt.Assert(i8 == -128, "int8 wrap")
	verifrt.Assert(-7/2 == -3 && -7%2 == -1, "signed division truncates")
	x := 1
	verifrt.Assert(x<<3 == 8 && (-16)>>2 == -4, "shifts")
	var u uint32 = 1
	verifrt.Assert(u<<31>>31 == 1 && u<<32 == 0, "shift overflow")
	// strings
	str := "héllo"
	cnt := 0
	for range str {
		cnt++
	}
	verifrt.Assert(cnt == 5 && len(str) == 6, "range over string")
	rs := []rune(str)
	verifrt.Assert(len(rs) == 5 && string(rs[1:3]) == "él", "rune conversion")
	verifrt.Assert("abc" < "abd" && "ab" < "abc" && !("b" < "a"), "string compare")
	// sort
	xs := []string{"b", "c", "a"}
	sort.Strings(xs)
	eq(strings.Join(xs, ""), "abc", "sort.Strings")
	ys := []int{3, 1, 2}
	sort.Slice(ys, func(i, j int) bool { return ys[i] < ys[j] })
	verifrt.Assert(ys[0] == 1 && ys[2] == 3, "sort.Slice")
	// multi-value return and named results
	q, r := divmod(17, 5)
	verifrt.Assert(q == 3 && r == 2, "divmod")
	// floats
	f1, f2 := 0.1, 0.2
	f := f1 + f2
	verifrt.Assert(f > 0.3 && f < 0.3000001, "float add")
	g := 3.9
	seven := 7
	verifrt.Assert(int(g) == 3 && float64(seven)/2 == 3.5, "float conv")
}

func divmod(a, b int) (q, r int) {
	q = a / b
	r = a % b
	return
}

func recovers() (res string) {
	defer func() {
		if r := recover(); r != nil {
			res = fmt.Sprintf("recovered: %v", r)
		}
	}()
	panic("boom")
}

func idxPanics() (ok bool) {
	defer func() {
		if r := recover(); r != nil {
			ok = true
		}
	}()
	var s []int
	i := 3
	_ = s[i]
	return false
}

func TestConcurrency() {
	// unbuffered rendezvous
	ch := make(chan int)
	done := make(chan struct{})
	sum := 0
	go func() {
		for v := range ch {
			sum += v
		}
		close(done)
	}()
	for i := 1; i <= 4; i++ {
		ch <- i
	}
	close(ch)
	<-done
	verifrt.Assert(sum == 10, "unbuffered channel sum")
	// buffered + len/cap
	b := make(chan string, 2)
	b <- "x"
	b <- "y"
	verifrt.Assert(len(b) == 2 && cap(b) == 2, "buffered len")
	select {
	case b <- "z":
		verifrt.Assert(false, "send on full channel must not proceed")
	default:
	}
	verifrt.Assert(<-b == "x", "fifo")
	// WaitGroup + Mutex
	var wg sync.WaitGroup
	var mu sync.Mutex
	n := 0
	for i := 0; i < 3; i++ {
		wg.Add(1)
		go func() {
			defer wg.Done()
			mu.Lock()
			n++
			mu.Unlock()
		}()
	}
	wg.Wait()
	verifrt.Assert(n == 3, "waitgroup")
	// Once
	var once sync.Once
	k := 0
	once.Do(func() { k++ })
	once.Do(func() { k++ })
	verifrt.Assert(k == 1, "once")
	// time and context
	t0 := time.Now()
	time.Sleep(50 * time.Millisecond)
	verifrt.Assert(time.Since(t0) >= 50*time.Millisecond, "virtual sleep")
	select {
	case <-time.After(time.Second):
	case <-done:
	}
	ctx, cancel := context.WithCancel(context.Background())
	select {
	case <-ctx.Done():
		verifrt.Assert(false, "ctx not yet cancelled")
	default:
	}
	go func() {
		time.Sleep(10 * time.Millisecond)
		cancel()
	}()
	<-ctx.Done()
	verifrt.Assert(ctx.Err() == context.Canceled, "ctx.Err")
	ctx2, cancel2 := context.WithTimeout(context.Background(), 100*time.Millisecond)
	defer cancel2()
	<-ctx2.Done()
	verifrt.Assert(ctx2.Err() == context.DeadlineExceeded, "ctx timeout")
	child, cc := context.WithCancel(ctx)
	defer cc()
	<-child.Done()
	// sync.Pool
	p := sync.Pool{New: func() interface{} { return new(bytes.Buffer) }}
	b1 := p.Get().(*bytes.Buffer)
	b1.WriteString("q")
	p.Put(b1)
	b2 := p.Get().(*bytes.Buffer)
	verifrt.Assert(b1 == b2, "pool reuse (LIFO model)")
}

// TestSymbolic: properties that need the solver.
func TestSymbolic() {
	x := verifrt.Byte("x")
	y := verifrt.Byte("y")
	verifrt.Assert(x+y == y+x, "commutative")
	verifrt.Assert((x^y)^y == x, "xor")
	if x > 200 {
		verifrt.Assert(x+100 < 100, "wraps")
		verifrt.Reach("big")
	}
	s := verifrt.String("s", 3)
	parts := strings.Split(s, ",")
	verifrt.Assert(strings.Join(parts, ",") == s, "split/join round trip")
	if len(parts) == 4 {
		verifrt.Reach("three commas")
		verifrt.Assert(s == ",,,", "three commas means all commas")
	}
	n := verifrt.IntRange("n", 0, 3)
	arr := []int{10, 20, 30, 40}
	verifrt.Assert(arr[n] == 10*(n+1), "symbolic index")
	m := map[string]int{"a": 1}
	k := verifrt.String("k", 1)
	if _, ok := m[k]; ok {
		verifrt.Assert(k == "a", "map hit")
		verifrt.Reach("map hit")
	}
}

// TestMustFail has a genuinely failing assertion: the engine must find it.
func TestMustFail() {
	x := verifrt.Byte("x")
	verifrt.Assert(x != 0xAC, "x is never 0xAC (false)")
}

func TestSymBase64(n int) {
	s := verifrt.String("s", n)
	enc := base64.StdEncoding.EncodeToString([]byte(s))
	dec, err := base64.StdEncoding.DecodeString(enc)
	verifrt.Assert(err == nil && string(dec) == s, "base64 round trip, symbolic")
}

func TestRegexpReal() {
	re := regexp.MustCompile("^ERR(OR)?$")
	verifrt.Assert(re.MatchString("ERROR"), "match")
	verifrt.Assert(!re.MatchString("an ERROR occurred"), "anchored")
	re2 := regexp.MustCompile("a.c|x+")
	verifrt.Assert(re2.Match([]byte("zzabczz")) && re2.MatchString("xx") && !re2.MatchString("ac"), "alternation")
}

// TestAppendCaps: the capacity an append leaves behind is the Go runtime's
// (growslice + allocator size classes); code that looks at cap() depends on it.
func TestAppendCaps() {
	var b []byte
	b = append(b, "hello"...)
	verifrt.Assert(cap(b) == 8, "[]byte nil + 5")
	b = append(b, "xyz!"...)
	verifrt.Assert(cap(b) == 16, "[]byte 8 -> 16")
	var is []int
	is = append(is, 1, 2, 3)
	verifrt.Assert(cap(is) == 3, "[]int nil + 3")
	is = append(is, 4)
	verifrt.Assert(cap(is) == 6, "[]int 3 -> 6")
	var ss []string
	ss = append(ss, "a")
	verifrt.Assert(cap(ss) == 1, "[]string nil + 1")
	ss = append(ss, "b")
	verifrt.Assert(cap(ss) == 2, "[]string 1 -> 2")
	ss = append(ss, "c")
	verifrt.Assert(cap(ss) == 4, "[]string 2 -> 4")
	big := make([]byte, 300)
	big = append(big, 1)
	verifrt.Assert(cap(big) == 576, "[]byte 300 + 1")
	big5 := make([]byte, 5)
	big5 = append(big5, make([]byte, 7)...)
	verifrt.Assert(cap(big5) == 16, "[]byte 5 + 7 (more than double)")
	huge := make([]byte, 40000)
	huge = append(huge, 1)
	verifrt.Assert(cap(huge) == 57344, "[]byte 40000 + 1")
	verifrt.Reach("caps")
}

// TestRLockLostUpdate: two goroutines decrement a counter under a *read* lock:
// the engine must find the lost update (loads inside read-locked sections are
// preemption points under delay_preempt). The selftest expects the violation.
func TestRLockLostUpdate() {
	var mu sync.RWMutex
	n := 2
	done := make(chan struct{}, 2)
	for i := 0; i < 2; i++ {
		go func() {
			mu.RLock()
			n--
			mu.RUnlock()
			done <- struct{}{}
		}()
	}
	<-done
	<-done
	verifrt.Assert(n == 0, "lost update under a read lock")
}

// TestMapRace: one goroutine ranges over a map while another writes to it
// without any synchronisation: the engine must report the runtime's fatal
// "concurrent map iteration and map write" (the selftest expects the violation).
func TestMapRace() {
	m := map[string]int{"a": 1, "b": 2, "c": 3}
	done := make(chan struct{}, 2)
	go func() {
		n := 0
		for _, v := range m {
			n += v
		}
		done <- struct{}{}
	}()
	go func() {
		m["d"] = 4
		done <- struct{}{}
	}()
	<-done
	<-done
}

// TestMapNoRace: the same under a mutex: no report.
func TestMapNoRace() {
	var mu sync.Mutex
	m := map[string]int{"a": 1, "b": 2, "c": 3}
	done := make(chan struct{}, 2)
	go func() {
		mu.Lock()
		n := 0
		for _, v := range m {
			n += v
		}
		mu.Unlock()
		done <- struct{}{}
	}()
	go func() {
		mu.Lock()
		m["d"] = 4
		mu.Unlock()
		done <- struct{}{}
	}()
	<-done
	<-done
	verifrt.Assert(len(m) == 4, "map")
}

// TestTimeAndErrors: Time.Format honours its layout; os.IsNotExist recognises
// the io/fs value although package os is not initialised by the engine.
func TestTimeAndErrors() {
	h, err := strconv.Atoi(time.Now().Format("15"))
	verifrt.Assert(err == nil && h >= 0 && h < 24, "hour")
	verifrt.Assert(len(time.Now().Format("20060102-150405")) == 15, "stamp")
	var e error = &fs.PathError{Op: "stat", Path: "/x", Err: fs.ErrNotExist}
	verifrt.Assert(os.IsNotExist(e), "IsNotExist(PathError{ErrNotExist})")
	verifrt.Assert(errors.Is(e, os.ErrNotExist), "errors.Is(os.ErrNotExist)")
	verifrt.Assert(!os.IsNotExist(errors.New("no such file")), "plain error")
	verifrt.Reach("time-errors")
}
