//verif:dest internal/verifh/c11/c11e.go

package c11

import (
	"flag"
	"os"

	"github.com/mimecast/dtail/internal/config"
	"github.com/mimecast/dtail/internal/io/dlog"
	"github.com/mimecast/dtail/internal/mapr"
	"github.com/mimecast/dtail/internal/omode"
	"github.com/mimecast/dtail/internal/source"
	"github.com/mimecast/dtail/internal/verifrt"
)

// the clauses of one query; any of them may come first
var c11eClauses = []string{
	"select count($line),$hostname",
	"from STATS",
	"where $hostname eq \"foo\"",
	"set $foo = maskdigits($time)",
	"group by $hostname",
	"rorder by count($line)",
	"interval 1",
	"limit 10",
	"logformat generic",
}

// VerifC11ePositionalQuery: the query given to dmap/dtail as a positional
// argument (no -query flag), with any of its clauses first and in upper or
// lower case: config.Setup (setupAdditionalArgs) hands exactly that text to the
// parser - it is not mistaken for a file - and the files stay the file list.
func VerifC11ePositionalQuery() {
	os.Setenv("HOME", "/home/u")
	first := verifrt.Choose("first-clause", len(c11eClauses))
	q := c11eClauses[first]
	for i, c := range c11eClauses {
		if i != first {
			q += " " + c
		}
	}
	if verifrt.Bool("leading-blank") {
		q = "  " + q
	}
	dlog.VerifInstall(source.Client)
	want, err := mapr.NewQuery(q)
	verifrt.Assert(err == nil && want != nil, "harness: the query is not valid")
	flag.CommandLine = flag.NewFlagSet("dmap", flag.ContinueOnError)
	perr := flag.CommandLine.Parse([]string{q, "/var/log/a.log", "/var/log/b.log"})
	verifrt.Assert(perr == nil, "harness: flag parsing failed")
	args := config.Args{Mode: omode.MapClient, ConfigFile: "none", LogLevel: config.DefaultLogLevel, SSHPort: config.DefaultSSHPort}
	config.Setup(source.Client, &args, nil)
	verifrt.Assert(args.QueryStr == q, "a valid query given as an argument is not taken for the query")
	verifrt.Assert(args.What == "/var/log/a.log,/var/log/b.log", "the file arguments of a mapreduce run are not the file list")
	got, err := mapr.NewQuery(args.QueryStr)
	verifrt.Assert(err == nil && got != nil && got.String() == want.String(), "the query handed to the parser denotes something else")
	verifrt.Reach("recognised")
}
