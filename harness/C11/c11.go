//verif:dest internal/mapr/zz_verif_c11.go

package mapr

import (
	"github.com/mimecast/dtail/internal/mapr/funcs"
	"time"

	"github.com/mimecast/dtail/internal/io/dlog"
	"github.com/mimecast/dtail/internal/source"
	"github.com/mimecast/dtail/internal/verifrt"
)

// ---------------------------------------------------------------- C11a: never panics

// alphabet of structural characters used for the longer bounds (part of the bound)
var c11Alphabet = []byte(" \t,\"`()=$<>!.-_*;:%0123456789" + "selctfromwhgupbyditvalmkxnaq")

func c11InAlphabet(b byte) bool {
	ok := false
	for _, a := range c11Alphabet {
		if b == a {
			ok = true
		}
	}
	return ok
}

// c11ByteBound: every ASCII value, plus representative non-ASCII bytes (UTF-8
// lead, continuation, invalid); non-ASCII bytes only reach unicode case mapping.
func c11Bytes() string {
	b := []byte{0x80, 0xA9, 0xC3, 0xE2, 0xFF}
	for c := 0; c < 0x80; c++ {
		b = append(b, byte(c))
	}
	return string(b)
}

func c11Parse(q string) (query *Query, err error, panicked bool) {
	defer func() {
		if r := recover(); r != nil {
			panicked = true
			msg, _ := r.(interface{ Error() string })
			_ = msg
		}
	}()
	query, err = NewQuery(q)
	return
}

// c11NoPanic classifies a parse of q: no panic, except the listed findings.
func c11NoPanic(q string) (*Query, error) {
	query, err, panicked := c11Parse(q)
	if panicked {
		// known: a token that is a lone back-quote (t.str[1:0])
		lone := false
		for _, t := range tokenize(q) {
			if t.str == "`" {
				lone = true
			}
		}
		if lone {
			verifrt.Finding("C11-KF1", true)
		} else {
			verifrt.Assert(false, "the query parser panicked")
		}
		return nil, nil
	}
	if query == nil && err == nil {
		// known: NewQuery("") returns (nil, nil): callers dereference the query
		verifrt.Finding("C11-KF2", q == "")
	}
	return query, err
}

// VerifC11aRaw: every query string of n bytes (all byte values when free != 0,
// else bytes from the structural alphabet).
func VerifC11aRaw(n, free int) {
	dlog.VerifInstall(source.Client)
	var q string
	if free == 0 {
		q = verifrt.StringIn("q", n, string(c11Alphabet))
	} else {
		q = verifrt.StringIn("q", n, c11Bytes())
	}
	c11NoPanic(q)
	verifrt.Reach("parsed")
}

var c11Templates = [][]string{
	{"select ", ""},
	{"select ", " from ", ""},
	{"select a from t where ", " ", " ", ""},
	{"select a where ", ""},
	{"select a set ", " ", " ", ""},
	{"select a set ", ""},
	{"select a group by ", ""},
	{"select a order by ", ""},
	{"select a outfile ", " ", ""},
	{"select a limit ", ""},
	{"select a interval ", ""},
	{"select count(", ") from t"},
	{"select a ", " b"},
	{"", " a from t"},
	{"select \"", "\" from t"},
	{"select a where x eq \"", "\" and ", " eq b"},
}

// VerifC11aTemplate: keyword-anchored templates with symbolic holes of h bytes.
func VerifC11aTemplate(t, h int) {
	dlog.VerifInstall(source.Client)
	tpl := c11Templates[t]
	q := tpl[0]
	for i := 1; i < len(tpl); i++ {
		q += verifrt.StringIn("h", h, c11Bytes()) + tpl[i]
	}
	c11NoPanic(q)
	verifrt.Reach("parsed")
}

// VerifC11aShapes: select lists of h bytes over the structural characters of a
// select item only (parentheses, quotes, comma, blank, two letters): every
// arrangement of them, well-formed or not, is parsed or rejected, never a crash.
func VerifC11aShapes(h int) {
	dlog.VerifInstall(source.Client)
	q := "select " + verifrt.StringIn("h", h, "()ac\"`, ") + " from t"
	c11NoPanic(q)
	verifrt.Reach("parsed")
}

// ---------------------------------------------------------------- C11b: denotation

type c11Sel struct {
	text    string
	field   string
	storage string
	op      AggregateOperation
}

func c11Ident(name string) string {
	// a field name with two symbolic bytes from [a-z0-9_]
	return "f" + verifrt.StringIn(name, 2, "abcdefghijklmnopqrstuvwxyz0123456789_")
}

var c11Aggs = []struct {
	name string
	op   AggregateOperation
}{{"count", Count}, {"sum", Sum}, {"min", Min}, {"max", Max}, {"last", Last}, {"avg", Avg}, {"len", Len}}

var c11Keywords = []string{"select", "from", "where", "set", "group", "rorder", "order", "interval", "limit", "outfile", "logformat"}

func c11MakeSel(i int) c11Sel {
	id := c11Ident("sel")
	switch verifrt.Choose("selform", 5) {
	case 0: // plain field
		return c11Sel{id, id, id, Last}
	case 1: // $variable
		return c11Sel{"$" + id, "$" + id, "$" + id, Last}
	case 2: // aggregation
		a := c11Aggs[verifrt.Choose("agg", len(c11Aggs))]
		s := a.name + "(" + id + ")"
		return c11Sel{s, id, s, a.op}
	case 3: // back-quoted keyword as field name
		k := c11Keywords[verifrt.Choose("kw", len(c11Keywords))]
		return c11Sel{"`" + k + "`", k, k, Last}
	default: // back-quoted aggregation text is a literal field name
		s := "count(" + id + ")"
		return c11Sel{"`" + s + "`", s, s, Last}
	}
}

func c11Sep() string {
	return []string{" ", ",", ", ", "\t", " , "}[verifrt.Choose("sep", 5)]
}

func c11KW(k string, up bool) string {
	if !up {
		return k
	}
	b := []byte(k)
	for i := range b {
		if b[i] >= 'a' && b[i] <= 'z' {
			b[i] -= 32
		}
	}
	return string(b)
}

func c11CheckSelect(q *Query, sels []c11Sel) {
	verifrt.Assert(len(q.Select) == len(sels), "select list has the wrong number of entries")
	for i, s := range sels {
		verifrt.Assert(q.Select[i].Field == s.field, "select field misparsed")
		verifrt.Assert(q.Select[i].FieldStorage == s.storage, "select storage name misparsed")
		verifrt.Assert(q.Select[i].Operation == s.op, "select aggregation misparsed")
	}
}

// VerifC11bSelect: select lists of k items in every surface form, table name in any case.
func VerifC11bSelect(k int) {
	dlog.VerifInstall(source.Client)
	var sels []c11Sel
	text := c11KW("select", verifrt.Bool("upsel")) + " "
	for i := 0; i < k; i++ {
		s := c11MakeSel(i)
		sels = append(sels, s)
		if i > 0 {
			text += c11Sep()
		}
		text += s.text
	}
	table := []string{"stats", "STATS", "Stats"}[verifrt.Choose("table", 3)]
	text += " " + c11KW("from", verifrt.Bool("upfrom")) + " " + table
	q, err := NewQuery(text)
	verifrt.Assert(err == nil && q != nil, "valid query rejected (select/from)")
	c11CheckSelect(q, sels)
	verifrt.Assert(q.Table == "STATS", "table name misparsed")
	verifrt.Assert(len(q.GroupBy) == 1 && q.GroupBy[0] == sels[0].field, "default group key is not the first selected field")
	verifrt.Assert(q.Limit == -1 && q.Interval == 5*time.Second && q.Outfile == nil && q.OrderBy == "", "defaults altered")
	verifrt.Reach("select-checked")
}

type c11Cond struct {
	text   string
	l, r   string
	lt, rt fieldType
	op     QueryOperation
	lf, rf float64
}

var c11FloatOps = []struct {
	s  string
	op QueryOperation
}{{"==", FloatEq}, {"!=", FloatNe}, {"<", FloatLt}, {"<=", FloatLe}, {">", FloatGt}, {">=", FloatGe}}

var c11StrOps = []struct {
	s  string
	op QueryOperation
}{{"eq", StringEq}, {"ne", StringNe}, {"contains", StringContains}, {"ncontains", StringNotContains}, {"lacks", StringNotContains},
	{"hasprefix", StringHasPrefix}, {"nhasprefix", StringNotHasPrefix}, {"hassuffix", StringHasSuffix}, {"nhassuffix", StringNotHasSuffix}}

func c11MakeCond() c11Cond {
	id := c11Ident("w")
	if verifrt.Bool("floatcond") {
		o := c11FloatOps[verifrt.Choose("fop", len(c11FloatOps))]
		num := []string{"2", "0", "3.5", "100"}[verifrt.Choose("num", 4)]
		numf := []float64{2, 0, 3.5, 100}
		_ = numf
		var f float64
		switch num {
		case "2":
			f = 2
		case "0":
			f = 0
		case "3.5":
			f = 3.5
		default:
			f = 100
		}
		if verifrt.Bool("numleft") {
			return c11Cond{text: num + " " + o.s + " " + id, l: num, r: id, lt: Float, rt: Field, op: o.op, lf: f}
		}
		return c11Cond{text: id + " " + o.s + " " + num, l: id, r: num, lt: Field, rt: Float, op: o.op, rf: f}
	}
	o := c11StrOps[verifrt.Choose("sop", len(c11StrOps))]
	ops := o.s
	if verifrt.Bool("upop") {
		ops = c11KW(ops, true)
	}
	// right side: a quoted string with two arbitrary bytes (anything but the quote), or a field
	if verifrt.Bool("quoted") {
		if verifrt.Bool("empty-string") {
			// the empty string is a valid STRING operand
			return c11Cond{text: id + " " + ops + " \"\"", l: id, r: "", lt: Field, rt: String, op: o.op}
		}
		s := verifrt.String("str", 2)
		verifrt.Assume(s[0] != '"')
		verifrt.Assume(s[1] != '"')
		return c11Cond{text: id + " " + ops + " \"" + s + "\"", l: id, r: s, lt: Field, rt: String, op: o.op}
	}
	id2 := "$" + c11Ident("w2")
	return c11Cond{text: id + " " + ops + " " + id2, l: id, r: id2, lt: Field, rt: Field, op: o.op}
}

// VerifC11bWhere: where clauses of k conditions.
func VerifC11bWhere(k int) {
	dlog.VerifInstall(source.Client)
	var conds []c11Cond
	text := "select foo from T " + c11KW("where", verifrt.Bool("upwhere")) + " "
	for i := 0; i < k; i++ {
		c := c11MakeCond()
		conds = append(conds, c)
		if i > 0 {
			text += []string{" and ", " AND ", ", ", " "}[verifrt.Choose("and", 4)]
		}
		text += c.text
	}
	if verifrt.Bool("tail") {
		text += " limit 5"
	}
	q, err := NewQuery(text)
	verifrt.Assert(err == nil && q != nil, "valid query rejected (where)")
	verifrt.Assert(len(q.Where) == k, "where clause has the wrong number of conditions")
	for i, c := range conds {
		w := q.Where[i]
		verifrt.Assert(w.Operation == c.op, "where operator misparsed")
		if c.rt == String && len(c.r) == 2 && c.r[0] == '`' && c.r[1] == '`' && w.rString != c.r {
			// known: a quoted string that starts and ends with a back-quote loses both
			verifrt.Finding("C11-KF3", w.lString == c.l && w.rString == "" && w.rType == String)
			continue
		}
		verifrt.Assert(w.lString == c.l && w.rString == c.r, "where operand misparsed")
		verifrt.Assert(w.lType == c.lt && w.rType == c.rt, "where operand type misparsed")
		verifrt.Assert(w.lFloat == c.lf && w.rFloat == c.rf, "where number misparsed")
	}
	c11CheckSelect(q, []c11Sel{{"foo", "foo", "foo", Last}})
	verifrt.Reach("where-checked")
}

// VerifC11bMisc: set / group / order / interval / limit / outfile / logformat, in rotating clause order.
func VerifC11bMisc(part int) {
	dlog.VerifInstall(source.Client)
	id := "fab"                      // concrete identifiers here: the clause structure is what varies
	up := verifrt.Choose("upper", 9) // which keyword is upper-cased (8 = none)
	kw := func(i int, k string) string { return c11KW(k, up == i) }
	agg := "sum(" + id + ")"
	clauses := []string{
		kw(0, "select") + " " + id + "," + agg,
		kw(1, "from") + " tbl",
	}
	wantGroup := []string{id}
	groupKey := ""
	if part == 0 && verifrt.Bool("group") {
		g2 := "$fcd"
		by := " by "
		if verifrt.Bool("noby") {
			by = " "
		}
		clauses = append(clauses, kw(2, "group")+by+id+c11Sep()+g2)
		wantGroup = []string{id, g2}
		groupKey = id + "," + g2
	}
	orderBy, rev := "", false
	ordc := 0
	if part == 0 {
		ordc = verifrt.Choose("order", 3)
	}
	switch ordc {
	case 1:
		clauses = append(clauses, kw(3, "order")+" by "+agg)
		orderBy = agg
	case 2:
		clauses = append(clauses, kw(3, "rorder")+" "+id)
		orderBy, rev = id, true
	}
	limit, interval := -1, 5
	if part == 1 && verifrt.Bool("limit") {
		limit = []int{0, 7, 1000}[verifrt.Choose("limitv", 3)]
		clauses = append(clauses, kw(4, "limit")+" "+c11Itoa(limit))
	}
	if part == 1 && verifrt.Bool("interval") {
		interval = []int{1, 30, 3600}[verifrt.Choose("intervalv", 3)]
		clauses = append(clauses, kw(5, "interval")+" "+c11Itoa(interval))
	}
	outfile, appendMode := "", false
	outc := 0
	if part == 2 {
		outc = verifrt.Choose("outfile", 3)
	}
	switch outc {
	case 1:
		outfile = "r.csv"
		clauses = append(clauses, kw(6, "outfile")+" \"r.csv\"")
	case 2:
		outfile, appendMode = "/tmp/x y.csv", true
		clauses = append(clauses, kw(6, "outfile")+" append \"/tmp/x y.csv\"")
	}
	logformat := ""
	if part == 2 && verifrt.Bool("logformat") {
		logformat = []string{"csv", "generickv"}[verifrt.Choose("lf", 2)]
		clauses = append(clauses, kw(7, "logformat")+" "+logformat)
	}
	// clause order: any rotation
	rot := verifrt.Choose("rotation", len(clauses))
	text := ""
	ws := []string{" ", "  ", "\t"}[verifrt.Choose("ws", 3)]
	for i := range clauses {
		if i > 0 {
			text += ws
		}
		text += clauses[(i+rot)%len(clauses)]
	}
	q, err := NewQuery(text)
	verifrt.Assert(err == nil && q != nil, "valid query rejected (misc clauses)")
	c11CheckSelect(q, []c11Sel{{id, id, id, Last}, {agg, id, agg, Sum}})
	verifrt.Assert(q.Table == "TBL", "table misparsed")
	verifrt.Assert(len(q.GroupBy) == len(wantGroup), "group by misparsed")
	for i := range wantGroup {
		verifrt.Assert(q.GroupBy[i] == wantGroup[i], "group key misparsed")
	}
	verifrt.Assert(q.GroupKey == groupKey, "group key string misparsed")
	verifrt.Assert(q.OrderBy == orderBy && q.ReverseOrder == rev, "order by misparsed")
	verifrt.Assert(q.Limit == limit, "limit misparsed")
	verifrt.Assert(q.Interval == time.Duration(interval)*time.Second, "interval misparsed")
	if outfile == "" {
		verifrt.Assert(q.Outfile == nil, "outfile invented")
	} else {
		verifrt.Assert(q.Outfile != nil && q.Outfile.FilePath == outfile && q.Outfile.AppendMode == appendMode, "outfile misparsed")
	}
	verifrt.Assert(q.LogFormat == logformat, "logformat misparsed")
	verifrt.Assert(q.RawQuery == text, "raw query not kept")
	verifrt.Reach("misc-checked")
}

func c11Itoa(n int) string {
	if n == 0 {
		return "0"
	}
	s := ""
	for n > 0 {
		s = string(rune('0'+n%10)) + s
		n /= 10
	}
	return s
}

// VerifC11bSet: set clauses.
func VerifC11bSet(k int) {
	dlog.VerifInstall(source.Client)
	text := "select foo from T set "
	type want struct {
		l, r string
		rt   fieldType
		rf   float64
		nfn  int
	}
	var wants []want
	for i := 0; i < k; i++ {
		if i > 0 {
			text += []string{", ", " , ", " "}[verifrt.Choose("setsep", 3)]
		}
		v := "$" + c11Ident("v")
		src := c11Ident("s")
		switch verifrt.Choose("setform", 5) {
		case 0:
			text += v + " = " + src
			wants = append(wants, want{v, src, Field, 0, 0})
		case 1:
			text += v + " = 12"
			wants = append(wants, want{v, "12", Float, 12, 0})
		case 2:
			text += v + " = maskdigits(" + src + ")"
			wants = append(wants, want{v, src, FunctionStack, 0, 1})
		case 3:
			text += v + " = md5sum(maskdigits(" + src + "))"
			wants = append(wants, want{v, src, FunctionStack, 0, 2})
		default:
			text += v + " = `count(" + src + ")`"
			wants = append(wants, want{v, "count(" + src + ")", Field, 0, 0})
		}
	}
	q, err := NewQuery(text)
	verifrt.Assert(err == nil && q != nil, "valid query rejected (set)")
	verifrt.Assert(len(q.Set) == k, "set clause has the wrong number of assignments")
	for i, w := range wants {
		s := q.Set[i]
		verifrt.Assert(s.lString == w.l && s.rString == w.r, "set operand misparsed")
		verifrt.Assert(s.rType == w.rt && s.rFloat == w.rf, "set operand type misparsed")
		verifrt.Assert(len(s.functionStack) == w.nfn, "set function stack misparsed")
		if w.nfn == 2 {
			// md5sum(maskdigits(x)): the outer function first; the stack denotes md5sum applied to the masked text
			verifrt.Assert(s.functionStack[0].Name == "md5sum" && s.functionStack[1].Name == "maskdigits", "nested functions parsed in the wrong order")
			// (FunctionStack.Call applies the stack from its last element to its first: the inner function first)
		}
		if w.nfn == 1 {
			verifrt.Assert(s.functionStack[0].Name == "maskdigits" && s.functionStack.Call("a1") == funcs.MaskDigits("a1"), "function call misparsed")
		}
	}
	verifrt.Reach("set-checked")
}

// ---------------------------------------------------------------- C11c: rejection

// VerifC11cReject: families of malformed queries, each with a symbolic hole; all must be rejected.
func VerifC11cReject(family int) {
	dlog.VerifInstall(source.Client)
	id := c11Ident("x")
	var text string
	switch family {
	case 0: // no select list
		text = []string{"select", "select from t", "from t", "select  from t where a eq b"}[verifrt.Choose("v", 4)]
	case 1: // unknown leading keyword (a bareword that is no keyword)
		text = id + " foo from t"
	case 2: // where with fewer than three tokens
		text = "select a from t where " + []string{id, id + " <", id + " eq"}[verifrt.Choose("v", 3)]
	case 3: // unknown where operator
		text = "select a from t where " + id + " " + []string{"=", "===", "equals", "~", "like"}[verifrt.Choose("v", 5)] + " b"
	case 4: // non numeric limit / interval
		text = "select a from t " + []string{"limit", "interval"}[verifrt.Choose("v", 2)] + " " + id
	case 5: // order by a column that is not selected
		text = "select a from t " + []string{"order by ", "rorder by ", "order "}[verifrt.Choose("v", 3)] + id
	case 6: // set without $ / without =
		text = "select a from t set " + []string{id + " = b", "$" + id + " b c", "$" + id + " == b", "$" + id + " ="}[verifrt.Choose("v", 4)]
	case 7: // unknown aggregation / function
		text = []string{"select " + id + "(a) from t", "select a from t set $v = " + id + "(b)", "select count(a)(b) from t", "select count((a) from t"}[verifrt.Choose("v", 4)]
	case 8: // dangling clause keywords
		text = "select a from t " + []string{"group", "group by", "order by", "limit", "from", "outfile", "outfile a b c", "logformat"}[verifrt.Choose("v", 8)]
	case 9: // float comparison with a quoted operand
		text = "select a from t where " + id + " < \"3\""
	}
	q, err, panicked := c11Parse(text)
	verifrt.Assert(!panicked, "parser panicked on a malformed query")
	verifrt.Assert(err != nil, "malformed query accepted")
	_ = q
	verifrt.Reach("rejected")
}
