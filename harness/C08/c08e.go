//verif:dest internal/user/server/zz_verif_c08e.go

package server

import (
	"flag"
	"os"

	"github.com/mimecast/dtail/internal/config"
	"github.com/mimecast/dtail/internal/io/dlog"
	"github.com/mimecast/dtail/internal/source"
	"github.com/mimecast/dtail/internal/verifh/memfs"
	"github.com/mimecast/dtail/internal/verifrt"
)

// VerifC08eConfiguredRules: the rule lists as the operator wrote them into the
// configuration file (rules may be repeated: the last matching rule decides,
// so a rule repeated further down overrides what stands in between) are the
// rules the server decides with after config.Setup: for every verdict of the
// patterns on the path, the decision equals that of the list in the file.
func VerifC08eConfiguredRules() {
	os.Setenv("HOME", "/home/u")
	if verifrt.Symbolic() {
		flag.CommandLine = flag.NewFlagSet("dserver", flag.ContinueOnError)
	}
	memfs.Reset()
	memfs.FS["/etc/dserver/dtail.json"] = &memfs.File{Data: []byte("{}")}
	a := c08Rule{pattern: "^/data/.*", text: "^/data/.*"}
	b := c08Rule{pattern: "^/data/secret/.*", negate: true, text: "!^/data/secret/.*"}
	c := c08Rule{pattern: "^/data/.*\\.log$", prefixed: true, text: "readfiles:^/data/.*\\.log$"}
	lists := [][]c08Rule{{a, b, c, b}, {b, a, b}, {a, b, a}, {a, b, c}, {c, b, c, a, b}}
	rules := lists[verifrt.Choose("rule-list", len(lists))]
	var texts []string
	for _, r := range rules {
		texts = append(texts, r.text)
	}
	perUser := verifrt.Bool("peruser")
	config.VerifC08eDefault, config.VerifC08eUsers = texts, nil
	if perUser {
		config.VerifC08eDefault, config.VerifC08eUsers = []string{"!^/.*$"}, map[string][]string{"alice": texts}
	}
	args := config.Args{ConfigFile: "/etc/dserver/dtail.json", LogLevel: config.DefaultLogLevel, SSHPort: config.DefaultSSHPort}
	config.Setup(source.Server, &args, nil)
	dlog.VerifInstall(source.Server)
	c08EvalFails, c08LstatFails, c08Mode = false, false, 0o644
	u, err := New("alice", "1.2.3.4:5")
	verifrt.Assert(err == nil && u != nil, "user.New failed")
	got := u.HasFilePermission(c08Requested, "readfiles")
	want := c08Oracle(rules, false)
	verifrt.Assert(got == want, "the decision differs from that of the rule list in the configuration file")
	if got {
		verifrt.Reach("allowed")
	}
	verifrt.Reach("checked")
}
