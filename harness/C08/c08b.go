//verif:dest internal/server/handlers/zz_verif_c08b.go
//verif:replace@C08b (*github.com/mimecast/dtail/internal/user/server.User).HasFilePermission = c08bPerm
//verif:replace@C08b (*github.com/mimecast/dtail/internal/server/handlers.readCommand).read = c08bRead

package handlers

import (
	"context"
	"strings"
	"time"

	"github.com/mimecast/dtail/internal/io/dlog"
	"github.com/mimecast/dtail/internal/lcontext"
	"github.com/mimecast/dtail/internal/omode"
	"github.com/mimecast/dtail/internal/regex"
	"github.com/mimecast/dtail/internal/source"
	user "github.com/mimecast/dtail/internal/user/server"
	"github.com/mimecast/dtail/internal/verifrt"
)

var c08bAllowed bool
var c08bReads []string

func c08bPerm(u *user.User, filePath, permissionType string) bool { return c08bAllowed }
func c08bRead(r *readCommand, ctx context.Context, ltx lcontext.LContext, path, globID string, re regex.Regex) {
	c08bReads = append(c08bReads, path)
}

// VerifC08bWiring: a reader is created iff the permission check allows; a
// denied request only produces the fixed warning.
func VerifC08bWiring() {
	dlog.VerifInstall(source.Server)
	c08bAllowed = verifrt.Bool("allowed")
	c08bReads = nil
	h := VerifNewServerHandler(false, false, false, 2, 2)
	r := newReadCommand(h, omode.CatClient)
	r.readFiles(context.Background(), lcontext.LContext{}, []string{"/real/secret/file"}, "/real/*/file", regex.NewNoop(), time.Second)
	if c08bAllowed {
		verifrt.Assert(len(c08bReads) == 1 && c08bReads[0] == "/real/secret/file", "an allowed file was not served")
		verifrt.Assert(len(h.serverMessages) == 0, "unexpected message for an allowed file")
		verifrt.Reach("served")
	} else {
		verifrt.Assert(len(c08bReads) == 0, "a denied file was opened for reading")
		verifrt.Assert(len(h.serverMessages) == 1, "a denied request must produce exactly one warning")
		m := <-h.serverMessages
		verifrt.Assert(strings.Contains(m, "Unable to read file(s), check server logs"), "unexpected text for a denied request")
		verifrt.Assert(!strings.Contains(m, "secret"), "the denial discloses the path")
		verifrt.Assert(len(h.lines) == 0, "a denied request delivered content")
		verifrt.Reach("denied")
	}
}
