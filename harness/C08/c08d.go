//verif:dest internal/clients/connectors/zz_verif_c08d.go

package connectors

import (
	"context"
	"time"

	"github.com/mimecast/dtail/internal/clients/handlers"
	"github.com/mimecast/dtail/internal/config"
	"github.com/mimecast/dtail/internal/io/dlog"
	shandlers "github.com/mimecast/dtail/internal/server/handlers"
	"github.com/mimecast/dtail/internal/source"
	"github.com/mimecast/dtail/internal/verifrt"
)

// VerifC08dServerless: a serverless session of user alice, who has a rule list
// of her own besides the default list (both one positive rule; whether a rule's
// pattern matches the path is an uninterpreted verdict): the file is opened
// for reading exactly if alice's own rule allows it — the default list plays
// no part for a user who has a list.
func VerifC08dServerless() {
	dlog.VerifInstall(source.Client)
	config.Server.Permissions = config.Permissions{
		Default: []string{"^/default-pattern"},
		Users:   map[string][]string{"alice": {"^/alice-pattern"}},
	}
	shandlers.VerifC08Reads()
	path := "/real/secret/file" // (the path the environment stand-ins of C08a know as a regular file)
	handler := handlers.NewClientHandler("local(serverless)")
	s := NewServerless("alice", handler, []string{"cat:quiet=true:serverless=true " + path + " regex:noop "})
	ctx, cancel := context.WithCancel(context.Background())
	done := make(chan struct{})
	go func() {
		s.Start(ctx, cancel, nil, nil)
		close(done)
	}()
	select {
	case <-done:
	case <-time.After(time.Minute):
	}
	cancel()
	reads := shandlers.VerifC08Reads()
	allowed := verifrt.UFBool("matchR", "^/alice-pattern|") // the verdict the regexp stand-in gives for alice's rule on this path
	if allowed {
		verifrt.Assert(len(reads) == 1 && reads[0] == path, "a file the user's own rules allow was not served")
		verifrt.Reach("served")
	} else {
		verifrt.Assert(len(reads) == 0, "a file the user's own rules deny was opened for reading (another rule list was applied)")
		verifrt.Reach("denied")
	}
}
