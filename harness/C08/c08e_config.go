//verif:dest internal/config/zz_verif_c08e.go
//verif:replace@C08e encoding/json.Unmarshal = c08eUnmarshal

package config

// Stand-in for the JSON decoder (reflection): the configuration file's
// permission lists are what the harness says the file contains.
var VerifC08eDefault []string
var VerifC08eUsers map[string][]string

func c08eUnmarshal(data []byte, v interface{}) error {
	in := v.(*initializer)
	in.Server.Permissions.Default = append([]string(nil), VerifC08eDefault...)
	in.Server.Permissions.Users = map[string][]string{}
	for u, rules := range VerifC08eUsers {
		in.Server.Permissions.Users[u] = append([]string(nil), rules...)
	}
	return nil
}
