//verif:dest internal/user/server/zz_verif_c08.go
//verif:replace path/filepath.EvalSymlinks = c08Eval
//verif:replace path/filepath.Abs = c08Abs
//verif:replace os.Lstat = c08Lstat
//verif:replace regexp.Compile = c08Compile
//verif:replace (*regexp.Regexp).MatchString = c08Match

package server

import (
	"errors"
	"io/fs"
	"os"
	"regexp"
	"time"

	"github.com/mimecast/dtail/internal/config"
	"github.com/mimecast/dtail/internal/io/dlog"
	"github.com/mimecast/dtail/internal/source"
	"github.com/mimecast/dtail/internal/verifrt"
)

// ---- environment (stubs, listed in the evidence) ----

const c08Requested = "/link/to/file"
const c08Resolved = "/real/secret/file"

var c08EvalFails bool
var c08Mode fs.FileMode
var c08LstatFails bool
var c08Patterns = map[*regexp.Regexp]string{}

func c08Eval(path string) (string, error) {
	if c08EvalFails {
		return "", errors.New("lstat: no such file or directory")
	}
	if path == c08Requested {
		return c08Resolved, nil
	}
	return path, nil
}
func c08Abs(path string) (string, error) { return path, nil }

type c08Info struct{ mode fs.FileMode }

func (i c08Info) Name() string       { return "file" }
func (i c08Info) Size() int64        { return 0 }
func (i c08Info) Mode() fs.FileMode  { return i.mode }
func (i c08Info) ModTime() time.Time { return time.Time{} }
func (i c08Info) IsDir() bool        { return i.mode.IsDir() }
func (i c08Info) Sys() interface{}   { return nil }

func c08Lstat(name string) (os.FileInfo, error) {
	if c08LstatFails {
		return nil, errors.New("lstat failed")
	}
	return c08Info{c08Mode}, nil
}

func c08Compile(expr string) (*regexp.Regexp, error) {
	re := new(regexp.Regexp)
	c08Patterns[re] = expr
	return re, nil
}

// the verdict of a pattern on a path is an uninterpreted predicate of (pattern bytes, path)
func c08Verdict(pattern, path string) bool {
	p := "R"
	if path == c08Requested {
		p = "Q"
	} else if path != c08Resolved {
		p = "?"
	}
	return verifrt.UFBool("match"+p, pattern+"|")
}
func c08Match(re *regexp.Regexp, s string) bool { return c08Verdict(c08Patterns[re], s) }

// ---- reference ----

type c08Rule struct {
	text     string
	prefixed bool
	negate   bool
	pattern  string
	bareColon bool
}

func c08HasColon(s string) bool {
	for i := 0; i < len(s); i++ {
		if s[i] == ':' {
			return true
		}
	}
	return false
}

// oracle: the last rule (in list order) whose regex matches the resolved path decides; no match: deny.
// skipBareColon applies known finding C08-KF1 (bare rules containing ':' are ignored).
func c08Oracle(rules []c08Rule, skipBareColon bool) bool {
	allowed := false
	for _, r := range rules {
		if skipBareColon && r.bareColon {
			continue
		}
		if c08Verdict(r.pattern, c08Resolved) {
			allowed = !r.negate
		}
	}
	return allowed
}

var c08Modes = []fs.FileMode{0o644, fs.ModeDir | 0o755, fs.ModeNamedPipe | 0o644, fs.ModeDevice | 0o600, fs.ModeSymlink | 0o777, fs.ModeSocket | 0o600}

// VerifC08Rules: r rules with patterns of n arbitrary bytes.
func VerifC08Rules(r, n int) {
	dlog.VerifInstall(source.Server)
	var rules []c08Rule
	var texts []string
	for i := 0; i < r; i++ {
		var ru c08Rule
		ru.prefixed = verifrt.Bool("prefixed")
		ru.negate = verifrt.Bool("negate")
		ru.pattern = verifrt.String("pat", n)
		// a pattern starting with '!' would itself be read as a negation marker, and a bare
		// pattern starting with "readfiles:" as a prefix: not rule spellings of their own
		if n > 0 {
			verifrt.Assume(ru.pattern[0] != '!')
		}
		body := ru.pattern
		if ru.negate {
			body = "!" + body
		}
		ru.text = body
		if ru.prefixed {
			ru.text = "readfiles:" + body
		} else {
			ru.bareColon = c08HasColon(body)
		}
		rules = append(rules, ru)
		texts = append(texts, ru.text)
	}
	perUser := verifrt.Bool("peruser")
	config.Server.Permissions = config.Permissions{Default: texts}
	if perUser {
		config.Server.Permissions = config.Permissions{Default: []string{"^/.*$"}, Users: map[string][]string{"alice": texts}}
	}
	c08EvalFails = verifrt.Bool("evalfails")
	c08LstatFails = verifrt.Bool("lstatfails")
	c08Mode = c08Modes[verifrt.Choose("mode", len(c08Modes))]

	u, err := New("alice", "1.2.3.4:5")
	if r == 0 {
		verifrt.Assert(err != nil, "a user with an empty rule list must not be created")
		verifrt.Reach("checked")
		return
	}
	verifrt.Assert(err == nil && u != nil, "user.New failed")
	got := u.HasFilePermission(c08Requested, "readfiles")

	exists := !c08EvalFails && !c08LstatFails
	regular := c08Mode.IsRegular()
	want := exists && regular && c08Oracle(rules, false)
	if got == want {
		verifrt.Reach("checked")
		if got {
			verifrt.Reach("allowed")
		}
		return
	}
	// known: a bare rule containing ':' is skipped
	anyBareColon := false
	for _, ru := range rules {
		anyBareColon = anyBareColon || ru.bareColon
	}
	faulty := exists && regular && c08Oracle(rules, true)
	if anyBareColon && got == faulty {
		verifrt.Finding("C08-KF1", true)
		return
	}
	verifrt.Assert(false, "permission decision differs from 'resolved regular file, last matching rule decides, no match denies'")
}
