//verif:dest internal/server/handlers/zz_verif_c08c.go
//verif:replace@C08c (*github.com/mimecast/dtail/internal/user/server.User).HasFilePermission = c08cPerm
//verif:replace@C08c (*github.com/mimecast/dtail/internal/server/handlers.readCommand).read = c08bRead
//verif:replace@C08c path/filepath.Glob = c08cGlob
//verif:replace@C08d (*github.com/mimecast/dtail/internal/server/handlers.readCommand).read = c08bRead
//verif:replace@C08d path/filepath.Glob = c08dGlob

package handlers

import (
	"encoding/base64"
	"strings"
	"time"

	"github.com/mimecast/dtail/internal/io/dlog"
	"github.com/mimecast/dtail/internal/source"
	user "github.com/mimecast/dtail/internal/user/server"
	"github.com/mimecast/dtail/internal/verifrt"
)

var c08cAsked []string

// the permission rules allow /var/log/public/... only
func c08cPerm(u *user.User, filePath, permissionType string) bool {
	c08cAsked = append(c08cAsked, filePath)
	return strings.HasPrefix(filePath, "/var/log/public/")
}

// the glob matches one allowed file and one or two denied files, before and/or
// after it in filepath.Glob's sorted result
var c08cMatches = [][]string{
	{"/var/log/public/a.log", "/var/log/secret/a.log"},
	{"/var/log/audit/a.log", "/var/log/public/a.log"},
	{"/var/log/audit/a.log", "/var/log/public/a.log", "/var/log/secret/a.log"},
}
var c08cMatch int

func c08cGlob(pattern string) ([]string, error) {
	return append([]string(nil), c08cMatches[c08cMatch]...), nil
}

// for C08d (serverless connector): the glob is the path itself; what was opened is exported
func c08dGlob(pattern string) ([]string, error) { return []string{pattern}, nil }

// VerifC08Reads returns (and forgets) the files opened for reading so far.
func VerifC08Reads() []string {
	r := c08bReads
	c08bReads = nil
	return r
}

// VerifC08cSession: a read command as a client can send it — cat, grep or tail
// with any subset of the options a client may set (serverless, plain, quiet,
// context values) — whose glob matches an allowed and a denied file: through
// Write/handleCommand/handleOptions/readCommand.Start/readGlob/readFiles only
// the allowed file is opened for reading, whatever the client claims about itself.
func VerifC08cSession(mode int) {
	dlog.VerifInstall(source.Server)
	c08bReads, c08cAsked = nil, nil
	c08cMatch = verifrt.Choose("glob-matches", len(c08cMatches))
	h := VerifNewServerHandler(false, false, false, 2, 2)
	word := []string{"cat", "grep", "tail"}[mode]
	opts := ""
	for _, o := range []string{"serverless=true", "plain=true", "quiet=true", "max=1", "before=1"} {
		if verifrt.Bool("opt") {
			opts += ":" + o
		}
	}
	cmd := word + opts + " /var/log/*/a.log regex:noop "
	h.Write([]byte("protocol 4.1 base64 " + base64.StdEncoding.EncodeToString([]byte(cmd)) + ";"))
	verifrt.Sleep(12 * time.Second)
	verifrt.Assert(len(c08bReads) <= 1, "more files were opened than the permission rules allow")
	for _, p := range c08bReads {
		verifrt.Assert(p == "/var/log/public/a.log", "a file the permission rules deny was opened for reading")
	}
	verifrt.Assert(len(c08bReads) == 1, "the allowed file was not served")
	if strings.Contains(opts, "serverless") {
		verifrt.Reach("claims-serverless")
	}
	verifrt.Reach("checked")
}
