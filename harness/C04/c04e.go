//verif:dest internal/io/fs/zz_verif_c04e.go
//verif:replace@C04e (*regexp.Regexp).Match = c04eMatch
//verif:replace@C04e regexp.Compile = c04Compile
//verif:replace@C07i (*regexp.Regexp).Match = c04eMatch
//verif:replace@C07i regexp.Compile = c04Compile

package fs

import (
	"context"
	"regexp"
	"time"

	"github.com/mimecast/dtail/internal/config"
	"github.com/mimecast/dtail/internal/io/dlog"
	"github.com/mimecast/dtail/internal/io/line"
	"github.com/mimecast/dtail/internal/lcontext"
	"github.com/mimecast/dtail/internal/regex"
	"github.com/mimecast/dtail/internal/source"
	"github.com/mimecast/dtail/internal/verifrt"
)

var c04eLines chan *line.Line
var c04eFull map[byte]bool // line id -> the delivery queue was full when the line was examined

// every line matches; the stub notes whether the delivery queue is full at the
// moment the filter examines the line (the drop decision follows at once)
func c04eMatch(re *regexp.Regexp, b []byte) bool {
	c04eFull[b[0]] = len(c04eLines) >= cap(c04eLines)
	return true
}

// VerifC04eFollowQueue: a burst of n selected lines appended at once to a
// followed file, a delivery queue of capacity c and a consumer that is fast or
// slow: through the real Start (reader, internal raw queue, filter) a line may
// be missing from the output only if the delivery queue was full when the
// filter examined it; everything else arrives, in order, and the line after a
// drop reports less than 100%.
func VerifC04eFollowQueue(n, c int) { c04eRun(n, 0, c) }

// VerifC04eTwoBursts: the same with a second burst of m lines appended after
// the reader has hit end-of-file once (the reader, filter and handler work
// with pooled buffers: what one line's drop gives back must not be handed to
// two later lines).
func VerifC04eTwoBursts(n, m, c int) { c04eRun(n, m, c) }

func c04eRun(n, m, c int) {
	dlog.VerifInstall(source.Server)
	config.Server.MaxLineLength = 1024
	var content []byte
	for i := 0; i < n+m; i++ {
		content = append(content, byte('a'+i), '\n')
	}
	src := &VerifSource{Content: content}
	if m > 0 {
		// the writer appends n lines, the reader reaches end-of-file, then m more lines arrive
		src.Chunks = []int{2 * n, 0, 2 * m}
	}
	VerifDefault = src
	n = n + m
	c04eLines = make(chan *line.Line, c)
	c04eFull = map[byte]bool{}
	pace := []time.Duration{0, 5 * time.Millisecond}[verifrt.Choose("consumer-pace", 2)]
	re, err := regex.New("x", regex.Default)
	verifrt.Assert(err == nil, "regex")
	tail := NewTailFile("f", "f", make(chan string, 10))
	go tail.Start(context.Background(), lcontext.LContext{}, c04eLines, re)
	var got []*line.Line
	deadline := time.After(3 * time.Second)
loop:
	for {
		select {
		case l := <-c04eLines:
			got = append(got, l)
			if pace > 0 {
				verifrt.Sleep(pace)
			}
		case <-deadline:
			break loop
		}
	}
	next := 0
	dropped := false
	for i := 0; i < n; i++ {
		id := byte('a' + i)
		delivered := next < len(got) && got[next].Content.Bytes()[0] == id
		if delivered {
			l := got[next]
			next++
			verifrt.Assert(l.Count == uint64(i+1), "line number wrong")
			if dropped {
				verifrt.Assert(l.TransmittedPerc < 100, "lines were dropped but the next delivered line reports 100%")
			} else {
				verifrt.Assert(l.TransmittedPerc == 100, "no line was dropped but the percentage is below 100")
			}
			continue
		}
		full, examined := c04eFull[id]
		verifrt.Assert(examined, "an appended line never reached the filter")
		verifrt.Assert(full, "a selected line is missing although the delivery queue had room when it was examined")
		dropped = true
	}
	verifrt.Assert(next == len(got), "lines delivered out of order, twice, or invented")
	if dropped {
		verifrt.Reach("legit-drop")
	} else {
		verifrt.Reach("all-delivered")
	}
}
