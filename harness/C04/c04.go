//verif:dest internal/io/fs/zz_verif_c04.go
//verif:replace@C04b os.Open = c04Open
//verif:replace@C04b (*os.File).Seek = c04Seek
//verif:replace@C04b (*os.File).Read = c04Read
//verif:replace@C04b (*os.File).Close = c04Close
//verif:replace@C04d os.Open = c04Open
//verif:replace@C04d (*os.File).Seek = c04Seek
//verif:replace@C04d (*os.File).Read = c04Read
//verif:replace@C04d (*os.File).Close = c04Close
//verif:replace@C04c (*regexp.Regexp).Match = c04Match
//verif:replace@C04c regexp.Compile = c04Compile

package fs

import (
	"bytes"
	"context"
	"io"
	"os"
	"regexp"
	"time"

	"github.com/mimecast/dtail/internal/config"
	"github.com/mimecast/dtail/internal/io/dlog"
	"github.com/mimecast/dtail/internal/io/line"
	"github.com/mimecast/dtail/internal/lcontext"
	"github.com/mimecast/dtail/internal/regex"
	"github.com/mimecast/dtail/internal/source"
	"github.com/mimecast/dtail/internal/verifrt"
)

// VerifC04aChunks: follow mode; the writer appends n arbitrary bytes in
// arbitrarily placed chunks (after any byte the reader may hit end-of-file
// and poll again); every complete line is delivered once, in order, unmodified;
// a trailing partial line is held back.
func VerifC04aChunks(n, M int) {
	dlog.VerifInstall(source.Server)
	config.Server.MaxLineLength = M
	stream := verifrt.Bytes("s", n)
	var chunks []int
	run := 0
	for i := 0; i < n; i++ {
		run++
		if verifrt.Bool("eof-after") {
			chunks = append(chunks, run, 0)
			run = 0
			verifrt.Reach("split")
		}
	}
	if run > 0 {
		chunks = append(chunks, run)
	}
	src := &VerifSource{Content: stream, Chunks: chunks}
	VerifDefault = src
	lines := make(chan *line.Line, 100)
	tail := NewTailFile("f", "f", make(chan string, 10))
	// the follow runs until the session ends; observe it after the writer has finished
	go tail.Start(context.Background(), lcontext.LContext{}, lines, regex.NewNoop())
	verifrt.Sleep(3 * time.Second)
	verifrt.Assert(src.Off == len(stream), "the follow did not read everything that was appended")

	// reference: the complete lines of the stream (with the MaxLineLength rule of C01)
	var want [][]byte
	var cur []byte
	for _, b := range stream {
		cur = append(cur, b)
		if b == '\n' {
			want = append(want, cur)
			cur = nil
		} else if len(cur) >= M {
			cur = append(cur, '\n')
			want = append(want, cur)
			cur = nil
		}
	}
	// cur (an unterminated rest) must be held back
	verifrt.Assert(len(lines) == len(want), "number of delivered lines differs from the complete lines appended")
	for i := 0; len(lines) > 0; i++ {
		l := <-lines
		if i < len(want) {
			verifrt.Assert(string(l.Content.Bytes()) == string(want[i]), "a delivered line differs from the appended line (modified, reordered or duplicated)")
			verifrt.Assert(l.Count == uint64(i+1), "line number wrong")
			verifrt.Assert(l.TransmittedPerc == 100, "transmission percentage below 100 without any drop")
		}
	}
	if len(cur) > 0 {
		verifrt.Reach("partial-held")
	}
	verifrt.Reach("checked")
}

// ---- C04b: the follow starts at the end of the file ----

var c04Content []byte
var c04Pos = map[*os.File]int64{}

func c04Open(name string) (*os.File, error) {
	fd := new(os.File)
	c04Pos[fd] = 0
	return fd, nil
}
func c04Seek(f *os.File, offset int64, whence int) (int64, error) {
	switch whence {
	case io.SeekStart:
		c04Pos[f] = offset
	case io.SeekCurrent:
		c04Pos[f] += offset
	case io.SeekEnd:
		c04Pos[f] = int64(len(c04Content)) + offset
	}
	return c04Pos[f], nil
}
func c04Read(f *os.File, p []byte) (int, error) {
	off := c04Pos[f]
	if off >= int64(len(c04Content)) {
		return 0, io.EOF
	}
	k := copy(p, c04Content[off:])
	c04Pos[f] = off + int64(k)
	return k, nil
}
func c04Close(f *os.File) error { return nil }

// VerifC04bSeek: makeFileReader positions a follow at the end of the existing
// content and a cat at the start.
func VerifC04bSeek(n int) {
	dlog.VerifInstall(source.Server)
	c04Content = verifrt.Bytes("old", n)
	follow := verifrt.Bool("follow")
	f := &readFile{filePath: "/var/log/x", seekEOF: follow}
	r, fd, err := f.makeFileReader()
	verifrt.Assert(err == nil && fd != nil, "makeFileReader failed")
	b, rerr := r.ReadByte()
	if follow {
		verifrt.Assert(rerr == io.EOF, "a follow delivered content that was already in the file")
		verifrt.Reach("follow-at-end")
	} else if n > 0 {
		verifrt.Assert(rerr == nil && b == c04Content[0], "a cat does not start at the beginning")
		verifrt.Reach("cat-at-start")
	}
}

// ---- C04c: drop accounting ----

var c04M []bool

func c04Compile(expr string) (*regexp.Regexp, error) { return new(regexp.Regexp), nil }
func c04Match(re *regexp.Regexp, b []byte) bool      { return c04M[int(b[0])] }

// VerifC04cDrops: t lines through the follow-mode filter step with symbolic
// match and queue-full bits: a line is dropped only when the queue is full,
// and then the next delivered line reports a transmission percentage < 100.
func VerifC04cDrops(t int) {
	dlog.VerifInstall(source.Server)
	tail := NewTailFile("f", "f", make(chan string, 10))
	f := &tail.readFile
	re, err := regex.New("x", regex.Default)
	verifrt.Assert(err == nil, "regex")
	c04M = make([]bool, t)
	matched, transmitted := 0, 0
	dropPending := false
	for i := 0; i < t; i++ {
		c04M[i] = verifrt.Bool("match")
		full := verifrt.Bool("queue-full")
		length, capacity := 0, 100
		if full {
			length = 100
		}
		raw := &bytes.Buffer{}
		raw.WriteByte(byte(i))
		raw.WriteByte('\n')
		f.updatePosition()
		l, ok := f.transmittable(raw, length, capacity, re)
		verifrt.Assert(ok == (c04M[i] && !full), "a line is delivered exactly if it matches and the queue has room")
		if c04M[i] {
			matched++
		}
		if ok {
			transmitted++
			verifrt.Assert(l.Count == uint64(i+1), "line number wrong")
			if dropPending {
				verifrt.Assert(l.TransmittedPerc < 100, "lines were dropped but the next delivered line reports 100%")
				verifrt.Reach("drop-reported")
			} else {
				verifrt.Assert(l.TransmittedPerc == 100, "no line was dropped but the percentage is below 100")
			}
		} else if c04M[i] && full {
			dropPending = true
		}
		verifrt.Assert(f.matchCount == uint64(matched) && f.transmitCount == transmitted, "hit / transmit counters differ from the lines seen")
	}
	verifrt.Reach("checked")
}

// VerifC04dTruncationCheck: the periodic truncation check is a pure query:
// it reports truncation exactly if the follower's position lies beyond the
// end of the file now at the path, and it leaves the follower's position
// where it was (moving it would skip or repeat appended data).
func VerifC04dTruncationCheck(size int) {
	dlog.VerifInstall(source.Server)
	c04Content = make([]byte, size)
	c04Pos = map[*os.File]int64{}
	f := &readFile{filePath: "/var/log/x", seekEOF: true}
	fd, _ := os.Open(f.filePath)
	pos := int64(verifrt.Choose("follower-position", size+3))
	fd.Seek(pos, io.SeekStart)
	isTruncated, err := f.truncated(fd)
	verifrt.Assert(isTruncated == (pos > int64(size)), "truncation verdict differs from 'position beyond the end of the file'")
	verifrt.Assert(isTruncated == (err != nil), "verdict and error disagree")
	verifrt.Assert(c04Pos[fd] == pos, "the truncation check moved the follower's read position")
	verifrt.Reach("checked")
}
