//verif:dest internal/mapr/zz_verif_c15.go
//verif:replace@C15a os.OpenFile = c15OpenFile
//verif:replace@C15a os.Stat = c15Stat
//verif:replace@C15a os.Rename = c15Rename
//verif:replace@C15a os.Remove = c15Remove
//verif:replace@C15a (*os.File).WriteString = c15WriteString
//verif:replace@C15a (*os.File).Write = c15Write
//verif:replace@C15a (*os.File).Close = c15Close
//verif:replace@C15d os.OpenFile = c15OpenFile
//verif:replace@C15d os.Stat = c15Stat
//verif:replace@C15d os.Rename = c15Rename
//verif:replace@C15d os.Remove = c15Remove
//verif:replace@C15d (*os.File).WriteString = c15WriteString
//verif:replace@C15d (*os.File).Write = c15Write
//verif:replace@C15d (*os.File).Close = c15Close
//verif:replace@C15e os.OpenFile = c15OpenFile
//verif:replace@C15e os.Stat = c15Stat
//verif:replace@C15e os.Rename = c15Rename
//verif:replace@C15e os.Remove = c15Remove
//verif:replace@C15e (*os.File).WriteString = c15WriteString
//verif:replace@C15e (*os.File).Write = c15Write
//verif:replace@C15e (*os.File).Close = c15Close

package mapr

import (
	"errors"
	"io/fs"
	"os"
	"time"

	"github.com/mimecast/dtail/internal/io/dlog"
	"github.com/mimecast/dtail/internal/source"
	"github.com/mimecast/dtail/internal/verifrt"
)

// ---- in-memory file system with a crash point (the k-th operation is the last) ----

type c15File struct{ data []byte }
type c15Handle struct {
	f      *c15File
	closed bool
	app    bool // O_APPEND: every write goes to the current end
	off    int  // otherwise the handle's own offset
}

// write puts s where write(2) would: at the end for O_APPEND handles, else at
// the handle's offset (zero-filling a hole left by another handle's truncation)
func (h *c15Handle) write(s string) {
	if h.app {
		h.off = len(h.f.data)
	}
	for len(h.f.data) < h.off {
		h.f.data = append(h.f.data, 0)
	}
	end := h.off + len(s)
	if end > len(h.f.data) {
		end = len(h.f.data)
	}
	h.f.data = append(h.f.data[:h.off:h.off], append([]byte(s), h.f.data[end:]...)...)
	h.off += len(s)
}

var c15FS map[string]*c15File
var c15Open map[*os.File]*c15Handle
var c15Ops, c15CrashAt int

type c15Crash struct{}

// c15OpDelay: every file system operation takes this much (virtual) time, so that
// operations of concurrent writers can interleave; c15Hook runs after every operation.
var c15OpDelay time.Duration
var c15Hook func()

// c15Tick counts an operation; returns true if the process dies during it.
func c15Tick() bool {
	c15Ops++
	if c15OpDelay > 0 {
		verifrt.Sleep(c15OpDelay)
	}
	if c15Hook != nil {
		defer c15Hook()
	}
	return c15Ops == c15CrashAt
}

// VerifC15Reset gives harnesses of other packages an empty file system without crash point.
func VerifC15Reset(opDelay time.Duration, hook func()) {
	c15FS = map[string]*c15File{}
	c15Open = map[*os.File]*c15Handle{}
	c15Ops, c15CrashAt = 0, 0
	c15OpDelay, c15Hook = opDelay, hook
}

// VerifC15Put creates (or replaces) a file of the harness file system.
func VerifC15Put(name, content string) { c15FS[name] = &c15File{data: []byte(content)} }

// VerifC15Ops: the number of file system operations so far.
func VerifC15Ops() int { return c15Ops }

// VerifC15Content returns the content of a file of the harness file system.
func VerifC15Content(name string) (string, bool) { return c15Content(name) }

func c15OpenFile(name string, flag int, perm os.FileMode) (*os.File, error) {
	if c15Tick() {
		// killed before or after the open took effect
		if verifrt.Bool("open-took-effect") {
			c15DoOpen(name, flag)
		}
		panic(c15Crash{})
	}
	return c15DoOpen(name, flag)
}

func c15DoOpen(name string, flag int) (*os.File, error) {
	f, ok := c15FS[name]
	if !ok {
		if flag&os.O_CREATE == 0 {
			return nil, errors.New("no such file")
		}
		f = &c15File{}
		c15FS[name] = f
	}
	if flag&os.O_TRUNC != 0 {
		f.data = nil
	}
	h := new(os.File)
	c15Open[h] = &c15Handle{f: f, app: flag&os.O_APPEND != 0}
	return h, nil
}

type c15Info struct{ size int64 }

func (i c15Info) Name() string       { return "f" }
func (i c15Info) Size() int64        { return i.size }
func (i c15Info) Mode() fs.FileMode  { return 0o644 }
func (i c15Info) ModTime() time.Time { return time.Time{} }
func (i c15Info) IsDir() bool        { return false }
func (i c15Info) Sys() interface{}   { return nil }

func c15Stat(name string) (os.FileInfo, error) {
	f, ok := c15FS[name]
	if !ok {
		return nil, &fs.PathError{Op: "stat", Path: name, Err: fs.ErrNotExist}
	}
	return c15Info{int64(len(f.data))}, nil
}

func c15Rename(from, to string) error {
	if c15Tick() {
		if verifrt.Bool("rename-took-effect") {
			c15FS[to] = c15FS[from]
			delete(c15FS, from)
		}
		panic(c15Crash{})
	}
	f, ok := c15FS[from]
	if !ok {
		return errors.New("no such file")
	}
	c15FS[to] = f
	delete(c15FS, from)
	return nil
}

func c15Remove(name string) error {
	if c15Tick() {
		panic(c15Crash{})
	}
	delete(c15FS, name)
	return nil
}

func c15WriteString(fd *os.File, s string) (int, error) {
	h := c15Open[fd]
	if c15Tick() {
		// killed around the write: a single write(2) to a regular file is not torn by a
		// kill (it is not interruptible half-way); it either happened or it did not
		if verifrt.Bool("write-took-effect") {
			h.write(s)
		}
		panic(c15Crash{})
	}
	h.write(s)
	return len(s), nil
}

func c15Write(fd *os.File, b []byte) (int, error) { return c15WriteString(fd, string(b)) }

func c15Close(fd *os.File) error {
	if h := c15Open[fd]; h != nil {
		h.closed = true
	}
	return nil
}

func c15Content(name string) (string, bool) {
	f, ok := c15FS[name]
	if !ok {
		return "", false
	}
	return string(f.data), true
}

// ---- scenario ----

const c15Out = "/out.csv"
const c15OldResult = "a,count(b)\nold,1\n"

func c15Group(v1, v2 string) *GroupSet {
	g := NewGroupSet()
	s := g.GetSet(v1)
	s.SValues["a"] = v1
	s.FValues["count(b)"] = 3
	s.Samples = 3
	s = g.GetSet(v2)
	s.SValues["a"] = v2
	s.FValues["count(b)"] = 5
	s.Samples = 5
	return g
}

// run executes WriteResult; returns true if the process was killed during it.
func c15Run(g *GroupSet, q *Query, final bool) (crashed bool) {
	defer func() {
		if r := recover(); r != nil {
			if _, ok := r.(c15Crash); ok {
				crashed = true
				return
			}
			panic(r)
		}
	}()
	err := g.WriteResult(q, final)
	verifrt.Assert(err == nil, "WriteResult failed without a fault")
	return false
}

// VerifC15Outfile: prior state x (interim|final) run killed at any operation x follow-up run.
func VerifC15Outfile(appendMode int) {
	dlog.VerifInstall(source.Client)
	// the ways a query (or a job definition plus the outfile the scheduler adds) names the
	// outfile: the last outfile clause is the one that counts
	forms := []string{"outfile " + c15Out, "outfile append /other.csv outfile " + c15Out, "outfile /other.csv outfile " + c15Out}
	if appendMode == 1 {
		forms = []string{"outfile append " + c15Out, "outfile /other.csv outfile append " + c15Out, "outfile append /other.csv outfile append " + c15Out}
	}
	queryStr := "select a,count(b) from T group by a " + forms[verifrt.Choose("outfile-clause", len(forms))]
	q, err := NewQuery(queryStr)
	verifrt.Assert(err == nil, "query")
	v := verifrt.StringIn("v", 2, "abcxyz019")
	g := c15Group("k"+v, "m"+v)
	const header = "a,count(b)\n"
	rows := "k" + v + ",3\n" + "m" + v + ",5\n"

	// prior state
	c15FS = map[string]*c15File{}
	c15Open = map[*os.File]*c15Handle{}
	prior := ""
	if verifrt.Bool("prior-result") {
		prior = c15OldResult
		c15FS[c15Out] = &c15File{data: []byte(prior)}
		c15FS[c15Out+".query"] = &c15File{data: []byte("old query")}
	}
	if verifrt.Bool("stale-tmp-files") {
		// an earlier run was killed after an interim write: its temporary files are still there
		c15FS[c15Out+".tmp"] = &c15File{data: []byte("a,count(b)\nstale-row-of-an-earlier-longer-result,111\nanother-stale-row,222\n")}
		c15FS[c15Out+".query.tmp"] = &c15File{data: []byte("select something much longer than the current query text from an earlier run of another query")}
		verifrt.Reach("stale-tmp")
	}
	final := verifrt.Bool("final")
	c15Ops = 0
	c15CrashAt = verifrt.Choose("crash-at", 24) // 0 = never; the k-th FS operation is the last
	crashed := c15Run(g, q, final)
	if !crashed {
		verifrt.Assume(c15CrashAt == 0) // crash points beyond the last operation are the no-crash run
		verifrt.Reach("completed")
	} else {
		verifrt.Reach("killed")
	}

	out, exists := c15Content(c15Out)
	qf, qexists := c15Content(c15Out + ".query")
	verifrt.Assert(!qexists || qf == "old query" || qf == q.RawQuery, "the .query file is half-written")
	if appendMode == 0 {
		complete := header + rows
		verifrt.Assert(!exists || out == prior && prior != "" || out == complete, "the outfile is observable half-written")
		if !crashed && final {
			verifrt.Assert(exists && out == complete, "the final result is not in the outfile")
			verifrt.Assert(qexists && qf == q.RawQuery, "the .query file does not hold the query")
		}
		if !crashed && !final {
			verifrt.Assert(exists == (prior != "") && (!exists || out == prior), "an interim result touched the outfile")
			// the interim result is followed by the final one of the same run, with fewer rows
			c15CrashAt = 0
			g2 := NewGroupSet()
			s2 := g2.GetSet("z" + v)
			s2.SValues["a"] = "z" + v
			s2.FValues["count(b)"] = 1
			s2.Samples = 1
			c15Run(g2, q, true)
			out2, ok2 := c15Content(c15Out)
			verifrt.Assert(ok2 && out2 == header+"z"+v+",1\n", "the final result after an interim one is not exactly the final rows")
			verifrt.Reach("interim-then-final")
		}
		return
	}
	// append mode: earlier content is never altered ...
	verifrt.Assert(len(out) >= len(prior) && out[:len(prior)] == prior, "append mode altered earlier rows")
	// ... and after the next complete run the header is there exactly once
	c15CrashAt = 0
	c15Run(c15Group("n"+v, "o"+v), q, true)
	out2, _ := c15Content(c15Out)
	verifrt.Assert(len(out2) >= len(out) && out2[:len(out)] == out, "append mode altered earlier content")
	headers := 0
	start := 0
	for i := 0; i < len(out2); i++ {
		if out2[i] == '\n' {
			if out2[start:i+1] == header {
				headers++
			}
			start = i + 1
		}
	}
	if headers != 1 {
		// known: the header is written column by column; a kill in between leaves a torn
		// header that is never repaired (the file is no longer empty)
		torn := crashed && prior == "" && len(out) > 0 && len(out) < len(header) && header[:len(out)] == out
		verifrt.Finding("C15-KF1", torn && headers == 0)
		return
	}
	verifrt.Reach("header-once")
}
