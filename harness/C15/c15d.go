//verif:dest internal/clients/zz_verif_c15d.go

package clients

import (
	"context"
	"strings"
	"time"

	"github.com/mimecast/dtail/internal/clients/connectors"
	"github.com/mimecast/dtail/internal/clients/handlers"
	"github.com/mimecast/dtail/internal/config"
	"github.com/mimecast/dtail/internal/io/dlog"
	"github.com/mimecast/dtail/internal/mapr"
	"github.com/mimecast/dtail/internal/omode"
	"github.com/mimecast/dtail/internal/source"
	"github.com/mimecast/dtail/internal/verifrt"
)

const c15dOut = "/out.csv"

// c15dConn stands in for a server session: it merges partial results into the
// client's global group at the given moments and ends at endAt.
type c15dConn struct {
	c       *MaprClient
	merges  []time.Duration
	endAt   time.Duration
	handler handlers.Handler
}

func (x *c15dConn) Server() string             { return "srv" }
func (x *c15dConn) Handler() handlers.Handler { return x.handler }
func (x *c15dConn) Start(ctx context.Context, cancel context.CancelFunc, throttleCh, statsCh chan struct{}) {
	now := time.Duration(0)
	for i, at := range x.merges {
		if at >= x.endAt {
			break
		}
		verifrt.Sleep(at - now)
		now = at
		g := mapr.NewGroupSet()
		s := g.GetSet("k" + string(rune('0'+i)))
		s.SValues["g"] = "k" + string(rune('0'+i))
		s.FValues["count(x)"] = float64(i + 1)
		s.Samples = i + 1
		x.c.globalGroup.Merge(x.c.query, g)
	}
	verifrt.Sleep(x.endAt - now)
}

var c15dEnds = []time.Duration{
	1200 * time.Millisecond, // before the first interval write (at 1.5 s)
	1502 * time.Millisecond, // during the first interval write
	1504 * time.Millisecond,
	1507 * time.Millisecond,
	1900 * time.Millisecond, // between two interval writes
	2503 * time.Millisecond, // during the second
	2900 * time.Millisecond,
}
var c15dMergeAt = []time.Duration{200 * time.Millisecond, 1501 * time.Millisecond, 1503 * time.Millisecond, 1800 * time.Millisecond, 2501 * time.Millisecond}

// c15dComplete: header line followed by whole rows "k<d>,<n>.000000"?
func c15dComplete(s string) bool {
	if !strings.HasSuffix(s, "\n") {
		return false
	}
	lines := strings.Split(s[:len(s)-1], "\n")
	if lines[0] != "g,count(x)" {
		return false
	}
	for _, l := range lines[1:] {
		f := strings.Split(l, ",")
		if len(f) != 2 || len(f[0]) != 2 || f[0][0] != 'k' || len(f[1]) == 0 {
			return false
		}
	}
	return true
}

// VerifC15dClientWriters: the client's interval writer and its final write,
// while a session is merging results and ends at an arbitrary moment: at no
// moment (after any file system operation of any writer) the outfile holds
// anything but a complete result.
func VerifC15dClientWriters(cumulative int) {
	dlog.VerifInstall(source.Client)
	config.Server.MapreduceLogFormat = "generickv"
	observe := func() {
		out, ok := mapr.VerifC15Content(c15dOut)
		verifrt.Assert(!ok || c15dComplete(out), "the outfile is observable half-written")
		tmpq, ok := mapr.VerifC15Content(c15dOut + ".query")
		verifrt.Assert(!ok || strings.HasPrefix(tmpq, "select "), "the .query file is observable half-written")
	}
	mapr.VerifC15Reset(time.Millisecond, observe)
	var args config.Args
	args.QueryStr = "select g,count(x) from T group by g interval 1 outfile " + c15dOut
	args.What = "/var/log/f"
	args.Serverless = true
	args.UserName = "u"
	args.Mode = omode.MapClient
	args.ConnectionsPerCPU = 1
	args.Quiet = true
	mode := NonCumulativeMode
	if cumulative == 1 {
		mode = CumulativeMode
	}
	c, err := NewMaprClient(args, mode)
	verifrt.Assert(err == nil && c != nil, "NewMaprClient failed")
	conn := &c15dConn{c: c, handler: c.connections[0].Handler()}
	conn.endAt = c15dEnds[verifrt.Choose("session-ends", len(c15dEnds))]
	for _, at := range c15dMergeAt {
		if verifrt.Bool("merge") {
			conn.merges = append(conn.merges, at)
		}
	}
	c.connections = []connectors.Connector{conn}

	ctx, cancel := context.WithCancel(context.Background())
	done := make(chan struct{})
	go func() {
		c.Start(ctx, nil)
		close(done)
	}()
	ended := false
	select {
	case <-done:
		ended = true
	case <-time.After(time.Minute):
	}
	verifrt.Assert(ended, "the client did not end after its session ended")
	verifrt.Sleep(2 * time.Second) // writers still in flight finish
	cancel()
	verifrt.Sleep(2 * time.Second)
	observe()
	if conn.endAt%(500*time.Millisecond) != 0 && conn.endAt > 1500*time.Millisecond && conn.endAt%time.Second < 600*time.Millisecond {
		verifrt.Reach("ended-during-interval-write")
	}
	if _, ok := mapr.VerifC15Content(c15dOut); ok {
		verifrt.Reach("outfile-written")
	}
	if cumulative == 1 && len(conn.merges) > 0 && conn.merges[0] < conn.endAt {
		out, ok := mapr.VerifC15Content(c15dOut)
		verifrt.Assert(ok && c15dComplete(out), "cumulative mode: the final result is not in the outfile")
	}
	verifrt.Reach("done")
}
