//verif:dest internal/server/zz_verif_c15e.go
//verif:replace@C15e (*github.com/mimecast/dtail/internal/clients/connectors.ServerConnection).Start = c15eSession

package server

import (
	"context"
	"strings"
	"time"

	"github.com/mimecast/dtail/internal/clients/connectors"
	"github.com/mimecast/dtail/internal/config"
	"github.com/mimecast/dtail/internal/io/dlog"
	"github.com/mimecast/dtail/internal/mapr"
	"github.com/mimecast/dtail/internal/source"
	"github.com/mimecast/dtail/internal/verifrt"
)

// c15eSession stands in for the SSH session of a scheduled job's client: the
// server answers with two aggregate records, some time apart, and the session
// ends. The n-th session started is slower by c15eLag[n].
var c15eSessions int
var c15eLag [2]time.Duration

func c15eSession(c *connectors.ServerConnection, ctx context.Context, cancel context.CancelFunc, throttleCh, statsCh chan struct{}) {
	n := c15eSessions
	c15eSessions++
	if n < len(c15eLag) {
		verifrt.Sleep(c15eLag[n])
	}
	for i := 0; i < 2; i++ {
		verifrt.Sleep(100 * time.Millisecond)
		key := "k" + string(rune('0'+i))
		c.Handler().Write(append([]byte("AGGREGATE|h|"+key+"∥1∥count(x)≔1∥g≔"+key+"∥"), 0xAC))
	}
}

func c15eComplete(s string) bool {
	return s == "g,count(x)\nk0,1\nk1,1\n" || s == "g,count(x)\nk1,1\nk0,1\n"
}

// VerifC15eScheduler: scheduler.runJobs with two enabled jobs in their time
// range, configured with the same outfile (say a job and its fall-back) or
// with two outfiles; the jobs' clients are the real NewMaprClient/Start with a
// stand-in session. After every file system operation, and at the end, every
// outfile is absent or holds the complete result.
func VerifC15eScheduler(same int) {
	dlog.VerifInstall(source.Server)
	config.Common = &config.CommonConfig{SSHPort: 2222}
	config.Server.SSHBindAddress = "localhost"
	config.Server.MapreduceLogFormat = "generickv"
	outs := []string{"/out.csv", "/out2.csv"}
	if same == 1 {
		outs[1] = outs[0]
	}
	observe := func() {
		for _, o := range outs {
			out, ok := mapr.VerifC15Content(o)
			verifrt.Assert(!ok || c15eComplete(out), "the outfile of a scheduled job is observable half-written")
			q, ok := mapr.VerifC15Content(o + ".query")
			verifrt.Assert(!ok || strings.HasPrefix(q, "select "), "the .query file is observable half-written")
		}
	}
	mapr.VerifC15Reset(time.Millisecond, observe)
	c15eSessions = 0
	c15eLag = [2]time.Duration{0, time.Duration(verifrt.Choose("second-job-lags", 8)) * time.Millisecond}
	config.Server.Schedule = nil
	for i, o := range outs {
		var j config.Scheduled
		j.Name = "job" + string(rune('0'+i))
		j.Enable = true
		j.Files = "/var/log/f"
		j.Query = "select g,count(x) from T group by g"
		j.Outfile = o
		j.TimeRange = [2]int{0, 24}
		config.Server.Schedule = append(config.Server.Schedule, j)
	}
	ctx, cancel := context.WithCancel(context.Background())
	newScheduler().runJobs(ctx)
	verifrt.Sleep(time.Minute) // whatever the jobs left running finishes
	cancel()
	verifrt.Sleep(time.Second)
	observe()
	for _, o := range outs {
		out, ok := mapr.VerifC15Content(o)
		verifrt.Assert(ok && c15eComplete(out), "a scheduled job left no complete outfile")
	}
	verifrt.Assert(c15eSessions == 2-same, "a job whose outfile exists ran again, or a job did not run")
	verifrt.Reach("jobs-done")
}

// VerifC15eContinuous: continuous.runJob for a job with an outfile whose
// session ends (the target drops the connection): when runJob has returned,
// nothing of that run writes any more - a complete result published later (by
// the next run, by anybody) stays as it is and no temporary file appears.
func VerifC15eContinuous() {
	dlog.VerifInstall(source.Server)
	config.Common = &config.CommonConfig{SSHPort: 2222}
	config.Server.SSHBindAddress = "localhost"
	config.Server.MapreduceLogFormat = "generickv"
	mapr.VerifC15Reset(time.Millisecond, nil)
	c15eSessions = 0
	c15eLag = [2]time.Duration{}
	var j config.Continuous
	j.Name, j.Enable = "cont", true
	j.Files = "/var/log/f"
	j.Query = "select g,count(x) from T group by g interval 2"
	j.Outfile = "/out.csv"
	j.RestartOnDayChange = verifrt.Bool("restart-on-day-change")
	ctx, cancel := context.WithCancel(context.Background()) // the server's context: it lives on
	defer cancel()
	newContinuous().runJob(ctx, j)
	verifrt.Assert(c15eSessions == 1, "the job did not run")
	const later = "g,count(x)\nk0,7\nk1,9\n"
	mapr.VerifC15Put("/out.csv", later)
	ops := mapr.VerifC15Ops()
	verifrt.Sleep(30 * time.Second)
	out, ok := mapr.VerifC15Content("/out.csv")
	verifrt.Assert(ok && out == later, "a run that has ended still writes: a complete result published after it was replaced")
	verifrt.Assert(mapr.VerifC15Ops() == ops, "a run that has ended still touches the file system")
	verifrt.Reach("quiet-after-end")
}
