//verif:dest internal/server/zz_verif_c13c.go
//verif:replace@C13c golang.org/x/crypto/ssh.NewServerConn = c14NewServerConn
//verif:replace@C13c golang.org/x/crypto/ssh.DiscardRequests = c14Discard
//verif:replace@C13c golang.org/x/crypto/ssh.Unmarshal = c14Unmarshal
//verif:replace@C13c golang.org/x/crypto/ssh.ParsePrivateKey = c13cParseKey
//verif:replace@C13c (*golang.org/x/crypto/ssh.ServerConfig).AddHostKey = c13cAddHostKey
//verif:replace@C13c github.com/mimecast/dtail/internal/ssh/server.PrivateHostKey = c13cHostKey
//verif:replace@C13c path/filepath.Glob = c13cGlob
//verif:replace@C13c (*github.com/mimecast/dtail/internal/user/server.User).HasFilePermission = c13cPerm
//verif:replace@C13c (github.com/mimecast/dtail/internal/io/fs.readFile).Start = c13cStart

package server

import (
	"context"
	"encoding/base64"
	"time"

	"github.com/mimecast/dtail/internal/config"
	"github.com/mimecast/dtail/internal/io/dlog"
	"github.com/mimecast/dtail/internal/io/fs"
	"github.com/mimecast/dtail/internal/io/line"
	"github.com/mimecast/dtail/internal/lcontext"
	"github.com/mimecast/dtail/internal/regex"
	"github.com/mimecast/dtail/internal/source"
	user "github.com/mimecast/dtail/internal/user/server"
	"github.com/mimecast/dtail/internal/verifrt"

	gossh "golang.org/x/crypto/ssh"
)

func c13cParseKey(pem []byte) (gossh.Signer, error)          { return nil, nil }
func c13cAddHostKey(c *gossh.ServerConfig, key gossh.Signer) {}
func c13cHostKey() []byte                                    { return nil }
func c13cGlob(pattern string) ([]string, error)              { return []string{pattern}, nil }
func c13cPerm(u *user.User, filePath, permissionType string) bool { return true }

// the file reader is a marker that counts the reads running in the whole server
var c13cRunning, c13cMax, c13cStarted int

func c13cStart(f fs.VerifReadFile, ctx context.Context, ltx lcontext.LContext, lines chan<- *line.Line, re regex.Regex) error {
	c13cRunning++
	c13cStarted++
	if c13cRunning > c13cMax {
		c13cMax = c13cRunning
	}
	select {
	case <-time.After(2 * time.Second):
	case <-ctx.Done():
	}
	c13cRunning--
	return nil
}

var c13cUsers = []string{"alice", "bob", config.ScheduleUser, config.ContinuousUser}

// VerifC13cServerWide: the limit is server wide: a server built by New() with
// MaxConcurrentCats = MaxConcurrentTails = limit serves k sessions of
// arbitrary users (interactive users and the server's own background users),
// each asking for one file at the same moment, in cat or tail mode: never more
// than `limit` files are being read at once in the whole process, and every
// read gets its turn.
func VerifC13cServerWide(k, limit, tail int) {
	dlog.VerifInstall(source.Server)
	config.Server.MaxConcurrentCats = limit
	config.Server.MaxConcurrentTails = limit
	config.Server.Permissions = config.Permissions{Default: []string{"^/.*$"}}
	c13cRunning, c13cMax, c13cStarted = 0, 0, 0
	c14Authenticated = map[int]bool{}
	s := New()
	ctx, cancel := context.WithCancel(context.Background())
	cmd := "cat:quiet=true /var/log/f regex:noop "
	if tail == 1 {
		cmd = "tail:quiet=true /var/log/f regex:noop "
	}
	wire := "protocol 4.1 base64 " + base64.StdEncoding.EncodeToString([]byte(cmd)) + ";"
	var conns []*c14Conn
	for i := 0; i < k; i++ {
		name := c13cUsers[verifrt.Choose("user", len(c13cUsers))]
		c := &c14Conn{id: i, kind: 4, user: name, input: []byte(wire), closed: make(chan struct{}), chans: make(chan gossh.NewChannel, 2)}
		conns = append(conns, c)
		go s.handleConnection(ctx, c)
		nc := &c14NewChan{conn: c, ctype: "session", reqs: make(chan *gossh.Request, 4), ch: &c14Channel{c}}
		c.chans <- nc
		nc.reqs <- &gossh.Request{Type: "shell"}
	}
	verifrt.Sleep(time.Duration(k+1) * 3 * time.Second)
	verifrt.Assert(c13cMax <= limit, "more files are being read at once in the server than MaxConcurrentCats/MaxConcurrentTails allows")
	verifrt.Assert(c13cStarted >= k, "a read never got its turn although earlier reads finished")
	if k > limit {
		verifrt.Assert(c13cMax == limit, "reads were serialised more than the limit requires")
		verifrt.Reach("contended")
	}
	for _, c := range conns {
		c.Close()
		close(c.chans)
	}
	cancel()
	verifrt.Reach("done")
}
