//verif:dest internal/config/zz_verif_c13e.go

package config

import (
	"flag"
	"os"

	"github.com/mimecast/dtail/internal/source"
	"github.com/mimecast/dtail/internal/verifrt"
)

var c13eLimits = []int{1, 2, 3, 50, 1000}

// VerifC13eConfiguredLimits: the limits the operator configured (the values
// the JSON decoder has put into the server configuration) are the limits the
// process works with after the configuration has been set up
// (initializer.transformConfig for a server, a serverless client and the
// health check, with arbitrary command line switches): positive
// MaxConcurrentCats / MaxConcurrentTails / MaxConnections come out unchanged.
func VerifC13eConfiguredLimits() {
	os.Setenv("HOME", "/home/u")
	if verifrt.Symbolic() {
		flag.CommandLine = flag.NewFlagSet("dserver", flag.ContinueOnError) // (package initialisers do not run under the engine)
	}
	in := initializer{Common: newDefaultCommonConfig(), Server: newDefaultServerConfig(), Client: newDefaultClientConfig()}
	cats := c13eLimits[verifrt.Choose("cats", len(c13eLimits))]
	tails := c13eLimits[verifrt.Choose("tails", len(c13eLimits))]
	conns := c13eLimits[verifrt.Choose("connections", len(c13eLimits))]
	in.Server.MaxConcurrentCats, in.Server.MaxConcurrentTails, in.Server.MaxConnections = cats, tails, conns
	var args Args
	args.ConfigFile = "none"
	args.LogLevel = DefaultLogLevel
	args.SSHPort = DefaultSSHPort
	args.Plain = verifrt.Bool("plain")
	args.NoColor = verifrt.Bool("nocolor")
	if verifrt.Bool("servers") {
		args.ServersStr = "a,b"
	}
	src := []source.Source{source.Server, source.Client, source.HealthCheck}[verifrt.Choose("process", 3)]
	err := in.transformConfig(src, &args, nil)
	verifrt.Assert(err == nil, "configuration set-up failed")
	verifrt.Assert(in.Server.MaxConcurrentCats == cats, "the configured MaxConcurrentCats is not the limit the process works with")
	verifrt.Assert(in.Server.MaxConcurrentTails == tails, "the configured MaxConcurrentTails is not the limit the process works with")
	verifrt.Assert(in.Server.MaxConnections == conns, "the configured MaxConnections is not the limit the process works with")
	verifrt.Reach("checked")
}
