//verif:dest internal/server/handlers/zz_verif_c13d.go
//verif:replace@C13d path/filepath.Glob = c13dGlob
//verif:replace@C13g path/filepath.Glob = c13dGlob
//verif:replace@C13g (*github.com/mimecast/dtail/internal/user/server.User).HasFilePermission = c13dPerm
//verif:replace@C13g (*regexp.Regexp).Match = c13gMatch
//verif:replace@C13g regexp.Compile = c13gCompile
//verif:replace@C13d (*github.com/mimecast/dtail/internal/user/server.User).HasFilePermission = c13dPerm
//verif:replace@C13h path/filepath.Glob = c13dGlob
//verif:replace@C13h (*github.com/mimecast/dtail/internal/user/server.User).HasFilePermission = c13dPerm

package handlers

import (
	"encoding/base64"
	"time"

	"github.com/mimecast/dtail/internal/omode"
	user "github.com/mimecast/dtail/internal/user/server"
	"github.com/mimecast/dtail/internal/verifrt"
)

func c13dGlob(pattern string) ([]string, error)                      { return []string{pattern}, nil }
func c13dPerm(u *user.User, filePath, permissionType string) bool { return true }

var c13dCommands = []string{
	"cat /var/log/f regex:noop ",
	"grep /var/log/f regex:noop ",
	"timeout 3600 cat /var/log/f regex:noop ",
	"map select count(x) from T",
}

// VerifC13dEndedSession: the limiter is full (another session reads); a
// session sends k commands (read commands of every kind a client can send,
// the `timeout` form of dmap included) that have to queue, then ends; later
// the other read finishes: no read of the ended session takes the freed slot,
// and the slot count returns to what the live sessions hold.
func VerifC13dEndedSession(k int) {
	h, _ := c13Setup(1, omode.CatClient)
	c13Hold = 30 * time.Second // a read that starts keeps its slot for a long time
	c13Lim <- struct{}{}        // the other session's read
	c13Others = 1
	go func() { // the client side of the session under test
		p := make([]byte, 4096)
		for {
			if _, err := h.Read(p); err != nil {
				return
			}
		}
	}()
	for i := 0; i < k; i++ {
		cmd := c13dCommands[verifrt.Choose("command", len(c13dCommands))]
		h.Write([]byte("protocol 4.1 base64 " + base64.StdEncoding.EncodeToString([]byte(cmd)) + ";"))
	}
	verifrt.Sleep(time.Second)
	verifrt.Assert(c13Started == 0 && len(c13Lim) == 1, "a read started although the limiter was full")
	h.Shutdown() // the connection ends (server.go: terminate -> handler.Shutdown)
	verifrt.Sleep(time.Second)
	<-c13Lim // the other session's read finishes
	c13Others = 0
	verifrt.Sleep(10 * time.Second)
	verifrt.Assert(c13Started == 0, "a read of a session that has ended was started")
	verifrt.Assert(len(c13Lim) == 0, "a session that has ended holds a limiter slot")
	verifrt.Reach("checked")
}

// VerifC13hMapSession: a mapreduce session (map command, then as many cat
// commands as the cat limit allows at once, plus one more) on an otherwise
// idle server: every slot is held by a file being read and by nothing else -
// the reads within the limit all start, the extra one waits and proceeds when
// one of them finishes.
func VerifC13hMapSession(limit int) {
	h, _ := c13Setup(limit, omode.CatClient)
	c13Hold = 30 * time.Second
	go func() {
		p := make([]byte, 4096)
		for {
			if _, err := h.Read(p); err != nil {
				return
			}
		}
	}()
	sent := make(chan struct{})
	go func() { // (the session's commands arrive one after another)
		cmds := []string{"map select count(x) from T"}
		for i := 0; i <= limit; i++ {
			cmds = append(cmds, "cat /var/log/f"+string(rune('0'+i))+" regex:noop ")
		}
		for _, cmd := range cmds {
			h.Write([]byte("protocol 4.1 base64 " + base64.StdEncoding.EncodeToString([]byte(cmd)) + ";"))
		}
		close(sent)
	}()
	verifrt.Sleep(10 * time.Second)
	select {
	case <-sent:
	default:
		verifrt.Assert(false, "the server stopped taking the commands of a mapreduce session although slots are free")
	}
	verifrt.Assert(c13Started == limit, "reads within the cat limit of an idle server did not all start (or more than the limit started)")
	verifrt.Assert(len(c13Lim) == limit, "slots are held by something other than files being read")
	verifrt.Sleep(25 * time.Second) // the first reads finish (30 s each)
	verifrt.Assert(c13Started == limit+1, "a waiting read did not proceed when a running read finished")
	verifrt.Sleep(40 * time.Second)
	verifrt.Assert(len(c13Lim) == 0, "slots are still held after all reads of the session finished")
	verifrt.Reach("checked")
}
