//verif:dest internal/clients/connectors/zz_verif_c13f.go
//verif:replace@C13f path/filepath.Glob = c13fGlob
//verif:replace@C13f (*github.com/mimecast/dtail/internal/user/server.User).HasFilePermission = c13fPerm
//verif:replace@C13f (github.com/mimecast/dtail/internal/io/fs.readFile).Start = c13fStart

package connectors

import (
	"context"
	"time"

	"github.com/mimecast/dtail/internal/clients/handlers"
	"github.com/mimecast/dtail/internal/config"
	"github.com/mimecast/dtail/internal/io/dlog"
	"github.com/mimecast/dtail/internal/io/fs"
	"github.com/mimecast/dtail/internal/io/line"
	"github.com/mimecast/dtail/internal/lcontext"
	"github.com/mimecast/dtail/internal/regex"
	"github.com/mimecast/dtail/internal/source"
	user "github.com/mimecast/dtail/internal/user/server"
	"github.com/mimecast/dtail/internal/verifrt"
)

func c13fGlob(pattern string) ([]string, error)                      { return []string{pattern}, nil }
func c13fPerm(u *user.User, filePath, permissionType string) bool { return true }

var c13fRunning, c13fMax, c13fStarted int

// the file reader is a marker that counts the reads running at once
func c13fStart(f fs.VerifReadFile, ctx context.Context, ltx lcontext.LContext, lines chan<- *line.Line, re regex.Regex) error {
	c13fRunning++
	c13fStarted++
	if c13fRunning > c13fMax {
		c13fMax = c13fRunning
	}
	select {
	case <-time.After(2 * time.Second):
	case <-ctx.Done():
	}
	c13fRunning--
	return nil
}

// VerifC13fServerless: a serverless session (the connector creates the
// session's own limiter pair from the configuration) with k read commands of
// one kind (cat or tail) and different limits for the two kinds: never more
// reads of that kind run at once than its own limit allows, and with fewer
// commands than the limit none has to wait.
func VerifC13fServerless(k, tail int) {
	dlog.VerifInstall(source.Client)
	cats := []int{1, 2, 50}[verifrt.Choose("MaxConcurrentCats", 3)]
	tails := []int{1, 2, 50}[verifrt.Choose("MaxConcurrentTails", 3)]
	config.Server.MaxConcurrentCats, config.Server.MaxConcurrentTails = cats, tails
	config.Server.Permissions = config.Permissions{Default: []string{"^/.*$"}}
	c13fRunning, c13fMax, c13fStarted = 0, 0, 0
	word, limit := "cat", cats
	if tail == 1 {
		word, limit = "tail", tails
	}
	var commands []string
	for i := 0; i < k; i++ {
		commands = append(commands, word+":quiet=true:serverless=true /var/log/f"+string(rune('0'+i))+" regex:noop ")
	}
	s := NewServerless("u", handlers.NewClientHandler("local(serverless)"), commands)
	ctx, cancel := context.WithCancel(context.Background())
	go s.Start(ctx, cancel, nil, nil)
	verifrt.Sleep(1500 * time.Millisecond) // all commands have arrived, the first reads are running
	want := k
	if limit < k {
		want = limit
	}
	verifrt.Assert(c13fMax <= limit, "more files of one kind are being read at once than the limit for that kind allows")
	verifrt.Assert(c13fMax == want, "reads wait although the limit for their kind is not reached")
	verifrt.Sleep(time.Duration(k+1) * 3 * time.Second)
	cancel()
	verifrt.Assert(c13fMax <= limit, "more files of one kind are being read at once than the limit for that kind allows")
	verifrt.Reach("checked")
}
