//verif:dest internal/server/handlers/zz_verif_c13g.go

package handlers

import (
	"encoding/base64"
	"regexp"
	"time"

	"github.com/mimecast/dtail/internal/config"
	"github.com/mimecast/dtail/internal/io/dlog"
	"github.com/mimecast/dtail/internal/io/fs"
	"github.com/mimecast/dtail/internal/source"
	"github.com/mimecast/dtail/internal/verifrt"
)

func c13gCompile(expr string) (*regexp.Regexp, error) { return new(regexp.Regexp), nil }
func c13gMatch(re *regexp.Regexp, b []byte) bool      { return len(b) > 0 && b[0] == 'x' }

// VerifC13gStalledClient: the limit is 1; a session greps a file through the
// real file layer (with before/after/max context as the client chooses) but
// its client has stopped reading, so the read backs up somewhere between the
// reader and the handler's queue; then that session ends. Another session's
// read has been waiting for the slot: it gets its turn, and afterwards no slot
// is taken.
func VerifC13gStalledClient(groups int) {
	dlog.VerifInstall(source.Server)
	config.Server.MaxLineLength = 1024
	config.Server.Permissions = config.Permissions{Default: []string{"^/.*$"}}
	fs.VerifFiles = nil
	var content []byte
	for i := 0; i < groups; i++ {
		content = append(content, "b\nb\nx\n"...) // two context lines, then a hit
	}
	pathA := fs.VerifProvideNamed("/var/log/a.log", content)
	pathB := fs.VerifProvideNamed("/var/log/b.log", []byte("x\n"))
	lim := make(chan struct{}, 1)
	h1 := VerifNewServerHandlerWith(lim, make(chan struct{}, 1))
	h2 := VerifNewServerHandlerWith(lim, make(chan struct{}, 1))
	opts := []string{"", ":before=2", ":after=1", ":before=2:after=1", ":before=1:max=100"}[verifrt.Choose("context", 5)]
	frame := func(cmd string) []byte {
		return []byte("protocol 4.1 base64 " + base64.StdEncoding.EncodeToString([]byte(cmd)) + ";")
	}
	h1.Write(frame("grep" + opts + " " + pathA + " regex:default x")) // nobody reads from h1
	verifrt.Sleep(2 * time.Second)
	if len(lim) == 1 {
		verifrt.Reach("first-read-backed-up") // (with few output lines the read has already finished)
	}
	h2.Write(frame("cat " + pathB + " regex:noop "))
	go func() { // the second session's client reads
		p := make([]byte, 4096)
		for {
			if _, err := h2.Read(p); err != nil {
				return
			}
		}
	}()
	verifrt.Sleep(2 * time.Second)
	h1.Shutdown() // the stalled client's connection ends
	verifrt.Sleep(20 * time.Second)
	verifrt.Assert(h2.VerifActiveCommands() == 0, "a read that waited for the slot of an ended session never got its turn")
	verifrt.Assert(len(lim) == 0, "a session that has ended still holds a limiter slot")
	verifrt.Reach("checked")
}
