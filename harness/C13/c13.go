//verif:dest internal/server/handlers/zz_verif_c13.go
//verif:replace@C13a (github.com/mimecast/dtail/internal/io/fs.readFile).Start = c13Start
//verif:replace@C13b (github.com/mimecast/dtail/internal/io/fs.readFile).Start = c13Start
//verif:replace@C13d (github.com/mimecast/dtail/internal/io/fs.readFile).Start = c13Start
//verif:replace@C13h (github.com/mimecast/dtail/internal/io/fs.readFile).Start = c13Start

package handlers

import (
	"context"
	"time"

	"github.com/mimecast/dtail/internal/io/dlog"
	"github.com/mimecast/dtail/internal/io/fs"
	"github.com/mimecast/dtail/internal/io/line"
	"github.com/mimecast/dtail/internal/lcontext"
	"github.com/mimecast/dtail/internal/omode"
	"github.com/mimecast/dtail/internal/regex"
	"github.com/mimecast/dtail/internal/source"
	"github.com/mimecast/dtail/internal/verifrt"
)

// The file reader is replaced by a marker that observes the limiter while "reading".
var c13Lim chan struct{}
var c13Cap int
var c13Others int   // tokens currently held by other readers (harness bookkeeping)
var c13Running int  // markers currently inside Start
var c13MaxRunning int
var c13Started int
var c13Hold time.Duration

func c13Start(f fs.VerifReadFile, ctx context.Context, ltx lcontext.LContext, lines chan<- *line.Line, re regex.Regex) error {
	c13Running++
	c13Started++
	if c13Running > c13MaxRunning {
		c13MaxRunning = c13Running
	}
	verifrt.Assert(len(c13Lim) <= c13Cap, "more tokens than the limiter capacity")
	verifrt.Assert(c13Running+c13Others <= c13Cap, "more files being read than the configured limit")
	verifrt.Assert(len(c13Lim) == c13Running+c13Others, "a file is being read without holding a limiter slot")
	if c13Hold > 0 {
		verifrt.Sleep(c13Hold)
	}
	c13Running--
	return nil
}

func c13Setup(c int, mode omode.Mode) (*ServerHandler, *readCommand) {
	dlog.VerifInstall(source.Server)
	c13Lim = make(chan struct{}, c)
	c13Cap, c13Others, c13Running, c13MaxRunning, c13Started, c13Hold = c, 0, 0, 0, 0, 0
	var h *ServerHandler
	if mode == omode.TailClient {
		h = VerifNewServerHandlerWith(make(chan struct{}, 1), c13Lim)
	} else {
		h = VerifNewServerHandlerWith(c13Lim, make(chan struct{}, 1))
	}
	return h, newReadCommand(h, mode)
}

// VerifC13aStep: one read call from an arbitrary valid limiter state.
func VerifC13aStep(c, tail int) {
	mode := omode.CatClient
	if tail == 1 {
		mode = omode.TailClient
	}
	_, r := c13Setup(c, mode)
	held := verifrt.Choose("held", c+1) // tokens of other readers
	for i := 0; i < held; i++ {
		c13Lim <- struct{}{}
	}
	c13Others = held
	ctx, cancel := context.WithCancel(context.Background())
	ctxMode := verifrt.Choose("cancel", 3) // 0 never, 1 before the call, 2 while waiting
	if ctxMode == 1 {
		cancel()
	}
	if ctxMode == 2 {
		go func() {
			verifrt.Sleep(10 * time.Millisecond)
			cancel()
		}()
	}
	releases := 0
	if held > 0 && verifrt.Bool("other-finishes") {
		// another reader finishes while we wait, before or after the cancellation
		d := []time.Duration{5 * time.Millisecond, 20 * time.Millisecond}[verifrt.Choose("when", 2)]
		releases = 1
		go func() {
			verifrt.Sleep(d)
			<-c13Lim
			c13Others-- // (no scheduling point between the receive and the bookkeeping)
		}()
	}
	if mode == omode.TailClient {
		// a follow never ends by itself: end it through the context once it has started
		go func() {
			verifrt.Sleep(50 * time.Millisecond)
			cancel()
		}()
	}
	done := make(chan struct{})
	go func() {
		r.read(ctx, lcontext.LContext{}, "/p", "g", regex.NewNoop())
		close(done)
	}()
	returned := false
	select {
	case <-done:
		returned = true
	case <-time.After(5 * time.Second): // (a follow re-checks its context every 2 s)
	}
	verifrt.Sleep(100 * time.Millisecond)
	want := held - releases
	if returned {
		if len(c13Lim) != want && (ctxMode != 0 || tail == 1) && c13Started == 0 {
			// known: a call that returned through ctx.Done() without acquiring still
			// runs the deferred non-blocking receive and takes a token of another read
			verifrt.Finding("C13-KF1", len(c13Lim) == want-1)
		} else {
			verifrt.Assert(len(c13Lim) == want, "after the call the other readers' slots are not exactly what they were")
		}
		verifrt.Reach("returned")
	} else {
		// still waiting is legal only if the limiter is full of other readers and nothing cancelled us
		verifrt.Assert(ctxMode == 0 && want == c, "a read is blocked although a slot is free or its context was cancelled")
		verifrt.Assert(len(c13Lim) == want, "a waiting read holds a slot")
		verifrt.Reach("queued")
	}
	if c13Started > 0 {
		verifrt.Reach("read-ran")
	}
}

// VerifC13bConcurrent: r concurrent reads on one limiter of capacity c,
// each holding its slot for a while; some cancelled while queued.
func VerifC13bConcurrent(c, r int) {
	_, rc := c13Setup(c, omode.CatClient)
	c13Hold = 30 * time.Millisecond
	finished := 0
	cancelled := 0
	for i := 0; i < r; i++ {
		ctx, cancel := context.WithCancel(context.Background())
		if verifrt.Bool("cancelled") {
			cancelled++
			d := []time.Duration{1 * time.Millisecond, 40 * time.Millisecond}[verifrt.Choose("when", 2)]
			go func() {
				verifrt.Sleep(d)
				cancel()
			}()
		}
		go func() {
			rc.read(ctx, lcontext.LContext{}, "/p", "g", regex.NewNoop())
			finished++
		}()
	}
	verifrt.Sleep(2 * time.Second)
	verifrt.Assert(finished == r, "a read never finished although slots became free")
	verifrt.Assert(c13MaxRunning <= c, "more concurrent reads than the limit")
	if cancelled == 0 {
		verifrt.Assert(c13Started == r, "a read that was not cancelled never ran")
		verifrt.Assert(len(c13Lim) == 0, "slots still held after all reads finished")
	} else if len(c13Lim) != 0 || c13Started < r-cancelled {
		verifrt.Assert(false, "slot accounting broken after cancellations")
	}
	if c13MaxRunning == c && r > c {
		verifrt.Reach("limit-reached")
	}
	verifrt.Reach("done")
}
