//verif:dest internal/clients/handlers/zz_verif_c16b.go

package handlers

import (
	"github.com/mimecast/dtail/internal/config"
	"github.com/mimecast/dtail/internal/io/dlog"
	"github.com/mimecast/dtail/internal/mapr"
	"github.com/mimecast/dtail/internal/source"
	"github.com/mimecast/dtail/internal/verifrt"
)

func c16Strip(s string) string {
	var out []byte
	for i := 0; i < len(s); i++ {
		if s[i] == 0x1b && i+1 < len(s) && s[i+1] == '[' {
			j := i + 2
			for j < len(s) && s[j] != 'm' {
				j++
			}
			i = j
			continue
		}
		out = append(out, s[i])
	}
	return string(out)
}

var c16Heads = []string{"", "REMOTE|h|100|1|f|", "REMOTE", "CLIENT|", "SERVER|h", "AGGREGATE|h|", "A", ".syn close connection", "AGGREGATE|h|k∥3∥count(x)≔", "AGGREGATE|h|k∥x∥count(x)≔1∥",
	// heads 10-12 have a tail after the arbitrary bytes (c16Tails): complete aggregate records
	"AGGREGATE|h|k∥3∥count(x)≔", "AGGREGATE|h|k∥3∥last(y)≔", "AGGREGATE|h|k∥",
	// heads 13-14: records relayed from a server / printed for the client with the arbitrary
	// bytes where the severity goes and further fields after them
	"SERVER|h|", "CLIENT|h|"}

var c16Tails = map[int]string{10: "∥", 11: "∥count(x)≔1∥", 12: "∥count(x)≔2∥last(y)≔v∥", 13: "|1005-101500|disk almost full", 14: "|1005-101500|x|y"}

// VerifC16bWire: a server message stream (head + n arbitrary ESC-free bytes
// + delimiter) into each client handler, colours on/off: no crash; in colour
// mode the printed text with the escape sequences removed equals the
// uncoloured rendering.
func VerifC16bWire(handler, head, n int) {
	lg := dlog.VerifInstall(source.Client)
	config.Client = config.VerifDefaultClient()
	colors := verifrt.Bool("colors")
	config.Client.TermColorsEnable = colors
	lg.Colors = colors
	verifrt.KnownPanic("C16-KF1", "brush.paint", "index out of range")
	verifrt.KnownPanic("C16-KF2", "MaprHandler).Write", "index out of range")

	body := verifrt.Bytes("b", n)
	for i := 0; i < n; i++ {
		verifrt.Assume(body[i] != 0x1b)
	}
	stream := append([]byte(c16Heads[head]), body...)
	stream = append(stream, c16Tails[head]...)
	stream = append(stream, 0xAC)

	var write func(p []byte) (int, error)
	var base *baseHandler
	switch handler {
	case 0:
		h := NewClientHandler("srv")
		write, base = h.Write, &h.baseHandler
	case 1:
		q, err := mapr.NewQuery("select count(x),last(y) from T group by g")
		verifrt.Assert(err == nil, "query")
		h := NewMaprHandler("srv", q, mapr.NewGlobalGroupSet())
		write, base = h.Write, &h.baseHandler
	default:
		h := NewHealthHandler("srv")
		write, base = h.Write, &h.baseHandler
	}
	_ = base
	k, err := write(stream)
	verifrt.Assert(err == nil && k == len(stream), "Write must consume everything")

	if colors {
		// compare with the uncoloured rendering of the same stream on a fresh handler
		lg2 := dlog.VerifInstall(source.Client)
		config.Client.TermColorsEnable = false
		var write2 func(p []byte) (int, error)
		switch handler {
		case 0:
			write2 = NewClientHandler("srv").Write
		case 1:
			q, _ := mapr.NewQuery("select count(x),last(y) from T group by g")
			write2 = NewMaprHandler("srv", q, mapr.NewGlobalGroupSet()).Write
		default:
			write2 = NewHealthHandler("srv").Write
		}
		write2(stream)
		verifrt.Assert(c16Strip(string(lg.Out)) == string(lg2.Out), "coloured output differs from the uncoloured rendering")
		verifrt.Reach("compared")
	}
	verifrt.Reach("survived")
}
