//verif:dest internal/clients/handlers/zz_verif_c16c.go

package handlers

import (
	"github.com/mimecast/dtail/internal/config"
	"github.com/mimecast/dtail/internal/io/dlog"
	"github.com/mimecast/dtail/internal/mapr"
	"github.com/mimecast/dtail/internal/source"
	"github.com/mimecast/dtail/internal/verifrt"
)

// VerifC16cResultTable: aggregate records whose group key and string value are
// n arbitrary bytes from an alphabet with multi-byte and invalid UTF-8 (what a
// server may send for `last(user)` over any log) arrive at the mapreduce
// handler; then the client renders the result table for the terminal and as
// CSV rows, as MaprClient.printResults / WriteResult do: no crash, and every
// received group is in the table.
func VerifC16cResultTable(n int) {
	dlog.VerifInstall(source.Client)
	config.Client = config.VerifDefaultClient()
	config.Client.TermColorsEnable = verifrt.Bool("colors")
	q, err := mapr.NewQuery("select count(x),last(y),g from T group by g")
	verifrt.Assert(err == nil, "query")
	global := mapr.NewGlobalGroupSet()
	h := NewMaprHandler("srv", q, global)
	key := verifrt.StringIn("k", n, "a \xc3\xbc\xe2\x82\xff")
	val := verifrt.StringIn("v", n, "a \xc3\xbc\xe2\x82\xff")
	for i := 0; i < n; i++ {
		// (the protocol's own delimiters inside a value are the subject of the known findings)
		verifrt.Assume(key[i] != 0xac && val[i] != 0xac)
	}
	rec := "AGGREGATE|h|" + key + "∥3∥count(x)≔3∥last(y)≔" + val + "∥g≔" + key + "∥"
	stream := append([]byte(rec), 0xAC)
	stream = append(stream, "AGGREGATE|h|o∥1∥count(x)≔1∥last(y)≔z∥g≔o∥"...)
	stream = append(stream, 0xAC)
	k, werr := h.Write(stream)
	verifrt.Assert(werr == nil && k == len(stream), "Write must consume everything")
	table, rows, rerr := global.Result(q, 10)
	verifrt.Assert(rerr == nil, "rendering the result table failed")
	verifrt.Assert(rows >= 1 && len(table) > 0, "received groups are missing from the result table")
	verifrt.Reach("rendered")
}
