//verif:dest internal/color/brush/zz_verif_c16.go

package brush

import (
	"github.com/mimecast/dtail/internal/config"
	"github.com/mimecast/dtail/internal/verifrt"
)

// stripANSI removes ESC [ ... m sequences.
func stripANSI(s string) string {
	var out []byte
	for i := 0; i < len(s); i++ {
		if s[i] == 0x1b && i+1 < len(s) && s[i+1] == '[' {
			j := i + 2
			for j < len(s) && s[j] != 'm' {
				j++
			}
			i = j
			continue
		}
		out = append(out, s[i])
	}
	return string(out)
}

var c16Prefixes = []string{"REMOTE", "CLIENT", "SERVER", "AGGREGATE", ".", "", "REMOTE|h|100|7|id|", "REMOTE|h|99|7|id|WARN", "CLIENT|h|ERROR|", "SERVER|h|FATAL"}

// VerifC16aColorfy: for every message (prefix + w arbitrary ESC-free bytes)
// colouring does not panic and is lossless.
func VerifC16aColorfy(prefix, w int) {
	config.Client = config.VerifDefaultClient()
	// known: positional indexing of the fields without a length check
	verifrt.KnownPanic("C16-KF1", "brush.paint", "index out of range")
	body := verifrt.String("m", w)
	for i := 0; i < w; i++ {
		verifrt.Assume(body[i] != 0x1b)
	}
	m := c16Prefixes[prefix] + body
	c := Colorfy(m)
	verifrt.Assert(stripANSI(c) == m, "colouring altered the text")
	verifrt.Reach("coloured")
}
