//verif:dest internal/clients/zz_verif_c16d.go

package clients

import (
	"time"

	"github.com/mimecast/dtail/internal/clients/handlers"
	"github.com/mimecast/dtail/internal/config"
	"github.com/mimecast/dtail/internal/io/dlog"
	"github.com/mimecast/dtail/internal/omode"
	"github.com/mimecast/dtail/internal/source"
	"github.com/mimecast/dtail/internal/verifrt"
)

// VerifC16dInterimReport: a cumulative mapreduce client prints an interim
// result (MaprClient.printResults, as the periodic reporter does) while the
// handler of a connection is merging k further well-formed aggregate records
// with new group keys into the same global result: whatever the interleaving,
// the client does not crash (the Go runtime kills a process that iterates over
// a map while another goroutine writes to it).
func VerifC16dInterimReport(k int) {
	dlog.VerifInstall(source.Client)
	config.Client = config.VerifDefaultClient()
	config.Client.TermColorsEnable = verifrt.Bool("colors")
	var args config.Args
	args.QueryStr = "select count(x),g from T group by g"
	args.What = "/var/log/f"
	args.Serverless = true
	args.UserName = "u"
	args.Mode = omode.MapClient
	args.ConnectionsPerCPU = 1
	args.Quiet = true
	c, err := NewMaprClient(args, CumulativeMode)
	verifrt.Assert(err == nil && c != nil, "NewMaprClient failed")
	h := handlers.NewMaprHandler("srv", c.query, c.globalGroup)
	rec := func(i int) []byte {
		key := "k" + string(rune('0'+i))
		return append([]byte("AGGREGATE|h|"+key+"∥1∥count(x)≔1∥g≔"+key+"∥"), 0xAC)
	}
	h.Write(rec(0))
	h.Write(rec(1))
	done := make(chan struct{}, 2)
	go func() {
		for i := 2; i < 2+k; i++ {
			h.Write(rec(i))
		}
		done <- struct{}{}
	}()
	go func() {
		c.printResults()
		done <- struct{}{}
	}()
	for i := 0; i < 2; i++ {
		select {
		case <-done:
		case <-time.After(time.Minute):
			verifrt.Assert(false, "the report or the merge never finished")
		}
	}
	verifrt.Reach("reported")
}
