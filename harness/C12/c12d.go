//verif:dest internal/regex/zz_verif_c12d.go

package regex

import (
	"github.com/mimecast/dtail/internal/verifrt"
)

var c12dPatterns = []string{"^ERROR$", "ERROR", "^ER", "OR$", "E.R", "a b", "R:O", "(a|b)E", "[[:upper:]]+ ", "^$", "\\AE\\z", "E*R", "^(ER|OR)$"}

// VerifC12dMatch: the filter the server reconstructs (Deserialize of the
// client's Serialize) gives the same verdict as the client's filter on every
// subject of n bytes from a small alphabet — with the real regexp engine.
func VerifC12dMatch(pat, n int) {
	p := c12dPatterns[pat]
	flag := Default
	if verifrt.Bool("invert") {
		flag = Invert
	}
	cre, err := New(p, flag)
	verifrt.Assert(err == nil, "client rejects the pattern")
	ser, err := cre.Serialize()
	verifrt.Assert(err == nil, "Serialize failed")
	sre, err := Deserialize(ser)
	verifrt.Assert(err == nil, "server rejects the serialised filter")
	subject := verifrt.StringIn("s", n, "EROab :\n")
	verifrt.Assert(cre.MatchString(subject) == sre.MatchString(subject), "client and server filter disagree on a line")
	verifrt.Assert(cre.Match([]byte(subject)) == sre.Match([]byte(subject)), "client and server filter disagree on a line (bytes)")
	verifrt.Reach("compared")
}
