//verif:dest internal/clients/zz_verif_c12.go
//verif:replace@C12a regexp.Compile = c12Compile
//verif:replace@C12b regexp.Compile = c12Compile
//verif:replace@C12c regexp.Compile = c12Compile
//verif:replace@C11f regexp.Compile = c12Compile
//verif:replace@C04f regexp.Compile = c12Compile

package clients

import (
	"regexp"
	"time"

	"github.com/mimecast/dtail/internal/clients/handlers"
	"github.com/mimecast/dtail/internal/config"
	"github.com/mimecast/dtail/internal/io/dlog"
	"github.com/mimecast/dtail/internal/lcontext"
	"github.com/mimecast/dtail/internal/mapr"
	"github.com/mimecast/dtail/internal/omode"
	"github.com/mimecast/dtail/internal/regex"
	shandlers "github.com/mimecast/dtail/internal/server/handlers"
	"github.com/mimecast/dtail/internal/source"
	"github.com/mimecast/dtail/internal/verifrt"
)

// regexp.Compile under the engine: whether a pattern compiles is an
// uninterpreted predicate of its bytes (the same pattern gets the same verdict
// on client and server); the compiled object remembers its pattern.
var c12Patterns = map[*regexp.Regexp]string{}

func c12Compile(expr string) (*regexp.Regexp, error) {
	// the empty pattern and the concrete (valid) patterns of the harness always compile
	if len(expr) > 0 && !verifrt.IsConcrete(expr) && !verifrt.UFBool("compiles", expr) {
		return nil, errC12
	}
	re := new(regexp.Regexp)
	c12Patterns[re] = expr
	return re, nil
}

type c12Err struct{}

func (c12Err) Error() string { return "invalid regexp" }

var errC12 error = c12Err{}

func c12PatternOf(re *regexp.Regexp) string {
	if verifrt.Symbolic() {
		return c12Patterns[re]
	}
	return re.String()
}

var c12Ints = []int{0, 3, 250, 100000}

// c12Send pushes one command through the real client SendMessage and returns the bytes put on the wire.
func c12Send(h *handlers.ClientHandler, cmd string) []byte {
	got := make(chan []byte, 1)
	go func() {
		p := make([]byte, 4096)
		n, _ := h.Read(p)
		got <- p[:n]
	}()
	err := h.SendMessage(cmd)
	verifrt.Assert(err == nil, "SendMessage failed")
	return <-got
}

// VerifC12Grep: client encodes a grep/cat/tail request with a regex of n
// arbitrary bytes and arbitrary options; the server must decode exactly it.
func VerifC12Grep(n int, mode int) {
	dlog.VerifInstall(source.Client)
	pat := verifrt.String("re", n)
	var args config.Args
	args.RegexStr = pat
	args.RegexInvert = verifrt.Bool("invert")
	args.Quiet, args.Plain = true, true
	args.LContext = lcontext.LContext{BeforeContext: 1, AfterContext: 7, MaxCount: 10}
	c12RoundTrip(args, mode)
}

// VerifC12Options: fixed regex with separators in it, every subset of the
// options (at most maxSet of them set), values from a small set, and every
// order in which the option map can be serialised.
func VerifC12Options(maxSet int) {
	dlog.VerifInstall(source.Client)
	var args config.Args
	args.RegexStr = "a b:c;d,e%f=g"
	args.RegexInvert = verifrt.Bool("invert")
	args.Quiet = verifrt.Bool("quiet")
	args.Plain = verifrt.Bool("plain")
	args.LContext = lcontext.LContext{
		BeforeContext: c12Ints[verifrt.Choose("before", len(c12Ints))],
		AfterContext:  c12Ints[verifrt.Choose("after", len(c12Ints))],
		MaxCount:      c12Ints[verifrt.Choose("max", len(c12Ints))],
	}
	// with or without a server: serverless=true is sent like any other switch
	c12Remote = verifrt.Bool("remote-server")
	set := 0
	for _, b := range []bool{!c12Remote, args.Quiet, args.Plain, args.BeforeContext != 0, args.AfterContext != 0, args.MaxCount != 0} {
		if b {
			set++
		}
	}
	verifrt.Assume(set <= maxSet)
	c12RoundTrip(args, 0)
	c12Remote = false
	if set >= 3 {
		verifrt.Reach("three-options")
	}
}

// c12Remote: the session is one with a real server (the serverless switch is not sent)
var c12Remote bool

func c12RoundTrip(args config.Args, mode int) {
	pat := args.RegexStr
	args.What = "/var/log/x.log"
	args.Serverless = true // no SSH set-up in init(); the option is sent like any other
	var cmds []string
	var cre regex.Regex
	accepted := func() (ok bool) {
		defer func() {
			if r := recover(); r != nil {
				ok = false // the client rejected the regex (FatalPanic)
			}
		}()
		switch mode {
		case 0:
			args.Mode = omode.GrepClient
			c := GrepClient{baseClient: baseClient{Args: args}}
			c.init()
			c.Args.Serverless = !c12Remote
			cmds, cre = c.makeCommands(), c.Regex
		case 1:
			args.Mode = omode.TailClient
			c := TailClient{baseClient: baseClient{Args: args}}
			c.init()
			cmds, cre = c.makeCommands(), c.Regex
		case 2:
			args.Mode = omode.CatClient
			c := CatClient{baseClient: baseClient{Args: args}}
			c.init()
			cmds, cre = c.makeCommands(), c.Regex
		}
		return true
	}()
	if !accepted {
		verifrt.Reach("client-rejects-regex")
		return
	}
	verifrt.Assert(len(cmds) == 1, "one command per file expected")

	ch := handlers.NewClientHandler("srv")
	wire := c12Send(ch, cmds[0])

	shandlers.VerifCaptureGlobs = true
	shandlers.VerifGlobCh = make(chan shandlers.VerifGlob, 4)
	sh := shandlers.VerifNewServerHandler(false, false, false, 2, 2)
	sh.Write(wire)

	var g shandlers.VerifGlob
	select {
	case g = <-shandlers.VerifGlobCh:
	case <-time.After(time.Second):
		verifrt.Assert(false, "the server did not execute the read command the client sent")
		return
	}
	// the filter
	cstr, cflags, _, cre2 := cre.VerifParts()
	sstr, sflags, sinit, sre2 := g.Re.VerifParts()
	verifrt.Assert(sinit, "server regex not initialised")
	cNoop := len(cflags) > 0 && cflags[0] == regex.Noop
	sNoop := len(sflags) > 0 && sflags[0] == regex.Noop
	verifrt.Assert(cNoop == sNoop, "match-everything filter on one side only")
	if cNoop {
		verifrt.Reach("noop")
	} else {
		verifrt.Assert(len(sflags) >= 1 && sflags[0] == cflags[0], "invert flag differs between client and server")
		verifrt.Assert(sstr == cstr && cstr == pat, "regex string differs between client and server")
		verifrt.Assert(cre2 != nil && sre2 != nil && c12PatternOf(sre2) == c12PatternOf(cre2), "compiled pattern differs between client and server")
		verifrt.Reach("regex-compared")
	}
	// the options
	verifrt.Assert(g.Ltx == args.LContext, "before/after/max differ between client and server")
	plain, quiet, serverless := sh.VerifFlags()
	verifrt.Assert(plain == args.Plain && quiet == args.Quiet && serverless == (args.Serverless && !c12Remote), "output-mode options differ between client and server")
	verifrt.Assert(g.Glob == "/var/log/x.log", "file argument differs")
	// grep and cat both run as cat-type reads on the server (which of the two mode
	// constants the server uses internally is its own business); tail follows
	if mode == 1 {
		verifrt.Assert(g.Mode == omode.TailClient, "a tail request does not run as a follow on the server")
	} else {
		verifrt.Assert(g.Mode == omode.CatClient || g.Mode == omode.GrepClient, "a cat/grep request runs as a follow on the server")
	}
}

// VerifC12cMap: a dmap request: the query text (with n arbitrary bytes inside a
// quoted string) and the per-file read commands reach the server unchanged.
func VerifC12cMap(n int) { c12cMap(n, true) }

// VerifC11fMapQueryText: the same without the --timeout form (registered for C11).
func VerifC11fMapQueryText(n int) { c12cMap(n, false) }

func c12cMap(n int, withTimeout bool) {
	dlog.VerifInstall(source.Client)
	config.Server.MapreduceLogFormat = "generickv"
	lit := verifrt.String("lit", n)
	for i := 0; i < n; i++ {
		verifrt.Assume(lit[i] != '"')
	}
	queryStr := "select count(x),last(y) from T where y eq \"" + lit + "\" group by g"
	var args config.Args
	args.QueryStr = queryStr
	args.What = "/var/log/a.log,/var/log/b.log"
	args.Serverless = true
	args.Mode = omode.MapClient
	args.Quiet = verifrt.Bool("quiet")
	args.Plain = verifrt.Bool("plain")
	if withTimeout {
		args.Timeout = []int{0, 5}[verifrt.Choose("timeout", 2)]
	}
	c := MaprClient{baseClient: baseClient{Args: args}}
	q, err := mapr.NewQuery(queryStr)
	verifrt.Assert(err == nil, "client rejects the query")
	c.query = q
	c.RegexStr = "\\|MAPREDUCE:T\\|"
	c.init()
	cmds := c.makeCommands()
	verifrt.Assert(len(cmds) == 3, "one map command and one read command per file expected")

	ch := handlers.NewClientHandler("srv")
	shandlers.VerifCaptureGlobs = true
	shandlers.VerifGlobCh = make(chan shandlers.VerifGlob, 4)
	sh := shandlers.VerifNewServerHandler(false, false, false, 2, 2)
	for _, cmd := range cmds {
		sh.Write(c12Send(ch, cmd))
	}
	files := map[string]bool{}
	if args.Timeout > 0 {
		// known: with --timeout the read commands are encoded as "timeout N cat file regex",
		// a command word the server does not decode: nothing is read
		select {
		case <-shandlers.VerifGlobCh:
			verifrt.Assert(false, "C12-KF1 is listed but the server now executes the read commands of a request with a timeout: remove the finding")
		case <-time.After(time.Second):
		}
		verifrt.Finding("C12-KF1", sh.VerifQuery() == queryStr)
		verifrt.Reach("timeout-form")
		return
	}
	for i := 0; i < 2; i++ {
		select {
		case g := <-shandlers.VerifGlobCh:
			files[g.Glob] = true
			str, flags, _, _ := g.Re.VerifParts()
			verifrt.Assert(str == "\\|MAPREDUCE:T\\|" && len(flags) == 1 && flags[0] == regex.Default, "the table filter regex differs on the server")
		case <-time.After(time.Second):
			verifrt.Assert(false, "the server did not execute a read command of the mapreduce request")
		}
	}
	verifrt.Assert(files["/var/log/a.log"] && files["/var/log/b.log"], "files of the mapreduce request differ")
	verifrt.Assert(sh.VerifQuery() == queryStr, "the query text differs between client and server")
	// the options of the request are in force on the server although the session's first
	// command (map) carries none
	plain, quiet, serverless := sh.VerifFlags()
	verifrt.Assert(quiet == args.Quiet, "the quiet option of a mapreduce request is not what the server applies")
	verifrt.Assert(plain == args.Plain, "the plain option of a mapreduce request is not what the server applies")
	verifrt.Assert(serverless == args.Serverless, "the serverless option of a mapreduce request is not what the server applies")
	verifrt.Reach("map-compared")
}
