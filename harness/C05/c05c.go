//verif:dest internal/mapr/zz_verif_c05c.go

package mapr

import (
	"github.com/mimecast/dtail/internal/config"
	"github.com/mimecast/dtail/internal/io/dlog"
	"github.com/mimecast/dtail/internal/source"
	"github.com/mimecast/dtail/internal/verifrt"
)

// VerifC05cOrder: n groups with arbitrary (non-NaN) aggregated values: the
// result rows are a permutation of the groups, sorted by the order key
// (order by: descending, rorder by: ascending), and limit cuts the output.
func VerifC05cOrder(n, reverse, limit int) {
	dlog.VerifInstall(source.Client)
	config.Client.TermColorsEnable = false
	g := NewGroupSet()
	vals := make([]float64, n)
	for i := 0; i < n; i++ {
		key := "k" + string(rune('0'+i))
		s := g.GetSet(key)
		vals[i] = verifrt.Float("v")
		s.FValues["sum(x)"] = vals[i]
		s.SValues["g"] = key
		s.Samples = 1
	}
	qs := "select sum(x),g from T group by g order by sum(x)"
	if reverse == 1 {
		qs = "select sum(x),g from T group by g rorder by sum(x)"
	}
	if limit >= 0 {
		qs += " limit " + string(rune('0'+limit))
	}
	q, err := NewQuery(qs)
	verifrt.Assert(err == nil, "query")
	rows, _, err := g.result(q, false)
	verifrt.Assert(err == nil && len(rows) == n, "result rows are not the groups")
	seen := make([]bool, n)
	for _, r := range rows {
		i := int(r.groupKey[1] - '0')
		verifrt.Assert(!seen[i], "a group appears twice in the result")
		seen[i] = true
		verifrt.Assert(r.orderBy == vals[i], "order key of a row is not its aggregated value")
	}
	for i := 0; i+1 < len(rows); i++ {
		if reverse == 1 {
			verifrt.Assert(rows[i].orderBy <= rows[i+1].orderBy, "rorder by does not sort ascending")
		} else {
			verifrt.Assert(rows[i].orderBy >= rows[i+1].orderBy, "order by does not sort descending")
		}
	}
	text, numRows, err := g.Result(q, 10)
	verifrt.Assert(err == nil && numRows == n, "Result failed")
	lines := 0
	for i := 0; i < len(text); i++ {
		if text[i] == '\n' {
			lines++
		}
	}
	want := n
	if limit >= 0 && limit < n {
		want = limit
	}
	verifrt.Assert(lines == 2+want, "limit clause not respected in the rendered result")
	verifrt.Reach("ordered")
}
