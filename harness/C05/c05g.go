//verif:dest internal/clients/zz_verif_c05g.go

package clients

import (
	"strings"

	"github.com/mimecast/dtail/internal/config"
	"github.com/mimecast/dtail/internal/io/dlog"
	"github.com/mimecast/dtail/internal/omode"
	"github.com/mimecast/dtail/internal/regex"
	"github.com/mimecast/dtail/internal/source"
	"github.com/mimecast/dtail/internal/verifrt"
)

// c05gTables: the table tags of the log lines of the files
var c05gTables = []string{"STATS", "STATSDB", "STAT", "XSTATS", "stats", "A.B", "AXB"}

// VerifC05gTableSelection: the line selection a mapreduce client asks the
// servers for (NewMaprClient: RegexStr from the query's table; baseClient.init;
// makeCommands' serialisation; the server's regex.Deserialize; the real regexp
// engine): with `from T` exactly the lines tagged MAPREDUCE:T reach the
// aggregators - not the lines of a table whose name merely starts with,
// ends with, or otherwise resembles T; with `from .` every line does.
func VerifC05gTableSelection() {
	dlog.VerifInstall(source.Client)
	queried := []string{"STATS", "STAT", "A.B", "."}[verifrt.Choose("from", 4)]
	var args config.Args
	args.QueryStr = "select count(x),g from " + queried + " group by g"
	args.What = "/var/log/f"
	args.Serverless = true
	args.UserName = "u"
	args.Mode = omode.MapClient
	args.ConnectionsPerCPU = 1
	args.Quiet = true
	c, err := NewMaprClient(args, DefaultMode)
	verifrt.Assert(err == nil && c != nil, "NewMaprClient failed")
	cmds := c.makeCommands()
	verifrt.Assert(len(cmds) == 2, "expected the map command and one read command")
	parts := strings.Split(cmds[1], " ")
	verifrt.Assert(len(parts) >= 3, "malformed read command")
	re, err := regex.Deserialize(strings.Join(parts[2:], " "))
	verifrt.Assert(err == nil, "the server cannot deserialise the client's line selection")
	for _, tag := range c05gTables {
		line := "INFO|1002-071143|1|demo.go:1|8|13|7|0.21|471h0m21s|MAPREDUCE:" + tag + "|g=k|x=1"
		want := queried == "." || tag == queried
		got := re.MatchString(line)
		if want {
			verifrt.Assert(got, "lines of the queried table are not selected")
		} else {
			verifrt.Assert(!got, "lines of another table reach the aggregator of the queried table")
		}
	}
	verifrt.Reach("selection-checked")
}
