//verif:dest internal/verifh/c05/c05.go

// Package c05: distributed mapreduce result equals central evaluation (C05).
package c05

import (
	"github.com/mimecast/dtail/internal/io/dlog"
	"github.com/mimecast/dtail/internal/mapr"
	chandlers "github.com/mimecast/dtail/internal/clients/handlers"
	shandlers "github.com/mimecast/dtail/internal/server/handlers"
	"github.com/mimecast/dtail/internal/mapr/server"
	"github.com/mimecast/dtail/internal/source"
	"github.com/mimecast/dtail/internal/verifrt"
)

var ops = []string{"count", "sum", "min", "max", "avg", "last", "len"}

type logLine struct {
	key        string // the group key the line belongs to
	g          byte
	hasX, hasY bool
	x, y       byte
	part       bool
	text       string
}

func numeric(b byte) bool { return b >= '0' && b <= '9' }

// evaluate runs server aggregation + serialisation + client aggregation +
// merge for the given wiring and returns the global result sets.
//   servers: each entry is the list of batches (serialisation intervals) of one server
func evaluate(q *mapr.Query, queryStr string, servers [][][]string) map[string]*mapr.AggregateSet {
	global := mapr.NewGlobalGroupSet()
	for si, batches := range servers {
		msgs, err := server.VerifAggregate(queryStr, batches)
		verifrt.Assert(err == nil, "server side query rejected")
		// each message travels as the server frames it (baseHandler.Read: AGGREGATE|host|payload + delimiter)
		// through a transport read buffer into the client's mapreduce handler (MaprHandler.Write)
		sh := shandlers.VerifNewServerHandler(false, true, false, 2, 2)
		ch := chandlers.NewMaprHandler("srv"+string(rune('0'+si)), q, global)
		p := make([]byte, 4096)
		for _, batch := range msgs {
			for _, m := range batch {
				sh.VerifMaprMessages() <- m
				for first := true; first || sh.VerifPending() > 0; first = false {
					n, _ := sh.Read(p)
					ch.Write(p[:n]) // a message of a set without any value is refused by the client: it carries no data
				}
			}
		}
	}
	return global.VerifSets()
}

// VerifC05aAlgebra: t generickv lines "g=<G>[|x=<D>][|y=<D>]" split over two
// partitions; wiring 0: two servers, wiring 1: one server with two
// serialisation intervals; the distributed result must equal the central one.
// VerifC05dReference: the central evaluation of the query (real server aggregate ->
// Serialize -> client Aggregate -> Merge chain, all lines at once) against an
// independent evaluation by hand: where-filter, group keys (one or two
// group-by fields, possibly absent), count/sum/min/max and sample counts.
func VerifC05dReference(t, op, where int) {
	c05Run(t, op, where, 0, true)
}

func VerifC05aAlgebra(t, op, where, wiring int) {
	c05Format = 0
	c05Run(t, op, where, wiring, false)
}

// c05Format: 0 generickv, 1 csv (header "g,x,y", rows may be short), 2 the
// default DTail format (INFO|time|...|MAPREDUCE:T|k=v|...).
var c05Format int
var c05Formats = []string{"generickv", "csv", "default"}

const c05CSVHeader = "g,x,y"
const c05DefaultPrefix = "INFO|20211002-071209|1|caller.go:1|8|12|0|1.0|1h|MAPREDUCE:T|"

// VerifC05eFormats: the algebra of C05a (and, with wiring 3, the reference of
// C05d) for the csv and default log formats. csv: every file starts with the
// header line; wiring 0 = two servers with one file each, 1 = one file in two
// serialisation intervals, 2 = two files in one server session.
func VerifC05eFormats(t, op, format, wiring int) {
	c05Format = format
	if wiring == 3 {
		c05Run(t, op, 0, 0, true)
		return
	}
	c05Run(t, op, 0, wiring, false)
}

func c05Run(t, op, where, wiring int, refOnly bool) {
	// where: 0 none, 1 "where x > 3", 2 none but grouped by two fields (g,h), h possibly absent, 3 none but grouped by $line, 4 none but the aggregated field is assigned by "set $z = x", 5 none but the group value is a or the byte 0xAC, 6 "where $z > 3 set $z = x" (where sees the line before set: nothing is selected), 7 "where 3 < x"
	twoKeys := where == 2
	byLine := where == 3 // grouped by $line: the group key is the whole line, field delimiters included
	setZ := where == 4   // the aggregated field is $z, assigned from x by a set clause ("set $z = x")
	acKey := where == 5  // the group value may be the byte 0xAC (the wire protocol's message delimiter)
	whereZ := where == 6 // "where $z > 3 set $z = x": the where clause is evaluated on the line's own fields, before set
	literalLeft := where == 7 // "where 3 < x": the same filter as "where x > 3", with the literal on the left
	if literalLeft {
		where = 1
	}
	c05NoneSelected = whereZ
	if whereZ {
		setZ = true
	}
	if twoKeys || byLine || setZ || acKey {
		where = 0
	}
	dlog.VerifInstall(source.Client)
	sel := ops[op] + "(x)"
	if setZ {
		sel = ops[op] + "($z)"
	}
	queryStr := "select " + sel + ",count(y) from T "
	if literalLeft {
		queryStr += "where 3 < x "
	} else if where == 1 {
		queryStr += "where x > 3 "
	}
	if whereZ {
		queryStr += "where $z > 3 "
	}
	if setZ {
		queryStr += "set $z = x "
	}
	if byLine {
		queryStr += "group by $line logformat " + c05Formats[c05Format]
	} else if twoKeys {
		queryStr += "group by g,h logformat " + c05Formats[c05Format]
	} else {
		queryStr += "group by g logformat " + c05Formats[c05Format]
	}
	q, err := mapr.NewQuery(queryStr)
	verifrt.Assert(err == nil, "query rejected")

	lines := make([]logLine, t)
	var all, p0, p1 []string
	for i := range lines {
		l := &lines[i]
		if acKey {
			l.g = verifrt.ByteIn("g", "a\xac")
		} else {
			l.g = verifrt.ByteIn("g", "ab")
		}
		l.hasX = verifrt.Bool("hasx")
		l.hasY = verifrt.Bool("hasy")
		l.x = verifrt.ByteIn("x", "0123456789z")
		l.y = verifrt.ByteIn("y", "0123456789z")
		l.part = verifrt.Bool("part")
		l.text = "g=" + string([]byte{l.g})
		l.key = string([]byte{l.g})
		if twoKeys {
			// the group key is "<g>,<h>"; a line may lack g or h (its slot stays empty)
			hasG := verifrt.Bool("hasg")
			hasH := verifrt.Bool("hash")
			h := verifrt.ByteIn("h", "ab")
			l.text, l.key = "", ","
			if hasG {
				l.text = "g=" + string([]byte{l.g})
				l.key = string([]byte{l.g}) + ","
			}
			if hasH {
				if l.text != "" {
					l.text += "|"
				}
				l.text += "h=" + string([]byte{h})
				l.key += string([]byte{h})
			}
			if l.text == "" {
				l.text = "z=0"
			}
		}
		switch c05Format {
		case 1:
			// a csv row: g[,x[,y]] (a short row lacks the trailing columns)
			l.hasY = l.hasY && l.hasX
			l.text = string([]byte{l.g})
			if l.hasX {
				l.text += "," + string([]byte{l.x})
			}
			if l.hasY {
				l.text += "," + string([]byte{l.y})
			}
		default:
			if l.hasX {
				l.text += "|x=" + string([]byte{l.x})
			}
			if l.hasY {
				l.text += "|y=" + string([]byte{l.y})
			}
			if c05Format == 2 {
				l.text = c05DefaultPrefix + l.text
			}
		}
		if byLine {
			l.key = l.text
		}
		if setZ && !l.hasX {
			// "set $z = x": when the line has no field x the right side is taken literally: $z = "x"
			l.hasX, l.x = true, 'x'
		}
		all = append(all, l.text)
		if l.part {
			p1 = append(p1, l.text)
		} else {
			p0 = append(p0, l.text)
		}
	}
	twoFiles := false
	if c05Format == 1 {
		// every csv file starts with its header line
		all = append([]string{c05CSVHeader}, all...)
		p0 = append([]string{c05CSVHeader}, p0...)
		if wiring == 0 || wiring == 2 {
			p1 = append([]string{c05CSVHeader}, p1...)
		}
		if wiring == 2 {
			// two files read one after the other in one server session, one final serialisation
			twoFiles = true
			p0 = append(p0, p1...)
			p1 = nil
		}
	}
	central := evaluate(q, queryStr, [][][]string{{all}})
	if refOnly {
	// independent reference: the query evaluated by hand over all lines
		ref := reference(lines, where == 1, op)
		if acKey {
			if _, has := ref["\xac"]; has {
				// known: the aggregate message of a group whose key contains the byte 0xAC is cut at
				// that byte by the client (no escaping in the wire protocol): the group is lost
				_, present := central["\xac"]
				verifrt.Finding("C05-KF3", !present)
				delete(ref, "\xac")
				verifrt.Reach("delimiter-in-key")
			}
		}
		verifrt.Assert(len(central) == len(ref), "central evaluation has different groups than the query denotes")
		for key, r := range ref {
			cs, ok := central[key]
			verifrt.Assert(ok, "a group the query denotes is missing from the result")
			if !ok {
				continue
			}
			verifrt.Assert(cs.Samples == r.samples, "sample count of a group differs from the lines that belong to it")
			if cy, ok := cs.FValues["count(y)"]; ok {
				verifrt.Assert(cy == float64(r.cntY), "count(y) differs from the number of lines carrying y")
			} else {
				verifrt.Assert(r.cntY == 0, "count(y) missing")
			}
			cx, okx := cs.FValues[sel]
			switch op {
			case 0:
				verifrt.Assert((okx && cx == float64(r.cntX)) || (!okx && r.cntX == 0), "count(x) differs from the number of lines carrying x")
			case 1, 4:
				verifrt.Assert((okx && cx == r.sum) || (!okx && !r.hasNum), "sum/avg numerator differs from the sum of the numeric x values")
			case 2:
				verifrt.Assert((okx && cx == r.min) || (!okx && !r.hasNum), "min(x) differs from the smallest numeric x value")
			case 3:
				verifrt.Assert((okx && cx == r.max) || (!okx && !r.hasNum), "max(x) differs from the largest numeric x value")
			}
		}
		verifrt.Reach("reference-checked")
		return
	}
	var dist map[string]*mapr.AggregateSet
	if wiring == 0 {
		dist = evaluate(q, queryStr, [][][]string{{p0}, {p1}})
	} else {
		dist = evaluate(q, queryStr, [][][]string{{p0, p1}})
	}

	if twoFiles {
		// known: the csv parser of a session takes the first line it ever sees for the header;
		// the header line of every further file is aggregated as a data row (group "g", x = "x")
		if hs, ok := dist["g"]; ok && len(dist) == len(central)+1 {
			verifrt.Finding("C05-KF2", hs.Samples == 1)
			delete(dist, "g")
			verifrt.Reach("second-header")
		}
	}
	verifrt.Assert(len(dist) == len(central), "distributed result has different groups than the central evaluation")
	for key, cs := range central {
		ds, ok := dist[key]
		verifrt.Assert(ok, "a group is missing from the distributed result")
		if !ok {
			continue
		}
		verifrt.Assert(ds.Samples == cs.Samples, "sample count differs between distributed and central evaluation")
		for _, storage := range []string{sel, "count(y)"} {
			cv, cok := cs.FValues[storage]
			dv, dok := ds.FValues[storage]
			isSel := storage == sel
			// partial results of this group that lack the aggregated field
			lacks := false
			if isSel && (op == 2 || op == 3 || op == 5 || op == 6) {
				lacks = partialLacks(lines, key, op, where == 1)
			}
			if isSel && (op == 2 || op == 3 || op == 6) && lacks && !(cok == dok && cv == dv) {
				// known: Merge reads FValues[storage] of a partial without a presence check: absent counts as 0
				verifrt.Finding("C05-KF1", true)
				continue
			}
			if isSel && op == 5 {
				continue // last: string value, below
			}
			if isSel && op == 6 {
				// len: a choice among the lines' values unless a single line carries x
				if n, _ := carriers(lines, key, where == 1); n != 1 {
					continue
				}
			}
			if cok {
				verifrt.Assert(dok && dv == cv, "aggregated value differs between distributed and central evaluation")
			} else {
				// central has no value: distributed may hold the neutral 0 (sum of nothing)
				verifrt.Assert(!dok || dv == 0, "distributed evaluation invented a value")
			}
		}
		if op == 5 || op == 6 {
			// last / len: compared when exactly one line of the group carries x
			n, val := carriers(lines, key, where == 1)
			if n == 1 {
				cvs := cs.SValues[sel]
				dvs := ds.SValues[sel]
				verifrt.Assert(cvs == string([]byte{val}), "central last() is not the only value")
				if dvs != cvs && partialLacks(lines, key, 5, where == 1) {
					verifrt.Finding("C05-KF1", dvs == "")
				} else {
					verifrt.Assert(dvs == cvs, "last()/len() value differs although a single line carries the field")
				}
				verifrt.Reach("last-compared")
			}
		}
	}
	verifrt.Reach("compared")
	if len(p0) > 0 && len(p1) > 0 {
		verifrt.Reach("both-partitions")
	}
}

// selected: does line l pass the where clause (x > 3 needs a numeric x)?
var c05NoneSelected bool

func selected(l *logLine, where bool) bool {
	if c05NoneSelected {
		return false // the where clause names a variable no line carries (it is only assigned afterwards)
	}
	if !where {
		return true
	}
	return l.hasX && numeric(l.x) && l.x > '3'
}

// partialLacks: is there a partition that has lines of group key but none carrying a usable x?
func partialLacks(lines []logLine, key string, op int, where bool) bool {
	for _, part := range []bool{false, true} {
		has, carries := false, false
		for i := range lines {
			l := &lines[i]
			if l.part != part || l.key != key || !selected(l, where) {
				continue
			}
			if !(l.hasX || l.hasY) {
				continue // no selected field at all: the line creates the group but adds nothing
			}
			has = true
			if op == 5 || op == 6 {
				carries = carries || l.hasX
			} else {
				carries = carries || (l.hasX && numeric(l.x))
			}
		}
		if has && !carries {
			return true
		}
	}
	// a partition whose lines of this group carry neither x nor y still creates the group
	for _, part := range []bool{false, true} {
		exists, carries := false, false
		for i := range lines {
			l := &lines[i]
			if l.part != part || l.key != key || !selected(l, where) {
				continue
			}
			exists = true
			if op == 5 || op == 6 {
				carries = carries || l.hasX
			} else {
				carries = carries || (l.hasX && numeric(l.x))
			}
		}
		if exists && !carries {
			return true
		}
	}
	return false
}

func carriers(lines []logLine, key string, where bool) (n int, val byte) {
	for i := range lines {
		l := &lines[i]
		if l.key == key && selected(l, where) && l.hasX {
			n++
			val = l.x
		}
	}
	return
}

type refGroup struct {
	samples, cntX, cntY int
	sum, min, max       float64
	hasNum              bool
}

// reference evaluates the query by hand: where-filter, grouping, aggregation.
func reference(lines []logLine, where bool, op int) map[string]*refGroup {
	ref := map[string]*refGroup{}
	for i := range lines {
		l := &lines[i]
		if !selected(l, where) {
			continue
		}
		added := false
		contributes := (l.hasX && (op == 0 || op == 5 || op == 6 || numeric(l.x))) || l.hasY
		if !contributes {
			continue // a line without any usable selected field adds nothing (and no empty group)
		}
		g, ok := ref[l.key]
		if !ok {
			g = &refGroup{}
			ref[l.key] = g
		}
		if l.hasX {
			g.cntX++
			if numeric(l.x) {
				v := float64(l.x - '0')
				if !g.hasNum {
					g.min, g.max, g.hasNum = v, v, true
				} else {
					if v < g.min {
						g.min = v
					}
					if v > g.max {
						g.max = v
					}
				}
				g.sum += v
			}
		}
		if l.hasX && (op == 0 || op == 5 || op == 6 || numeric(l.x)) {
			added = true // the line contributes a value for the x column
		}
		if l.hasY {
			g.cntY++
			added = true
		}
		if added {
			g.samples++
		}
	}
	return ref
}
