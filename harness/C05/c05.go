//verif:dest internal/verifh/c05/c05.go

// Package c05: distributed mapreduce result equals central evaluation (C05).
package c05

import (
	"github.com/mimecast/dtail/internal/io/dlog"
	"github.com/mimecast/dtail/internal/mapr"
	"github.com/mimecast/dtail/internal/mapr/client"
	"github.com/mimecast/dtail/internal/mapr/server"
	"github.com/mimecast/dtail/internal/source"
	"github.com/mimecast/dtail/internal/verifrt"
)

var ops = []string{"count", "sum", "min", "max", "avg", "last", "len"}

type logLine struct {
	g          byte
	hasX, hasY bool
	x, y       byte
	part       bool
	text       string
}

func numeric(b byte) bool { return b >= '0' && b <= '9' }

// evaluate runs server aggregation + serialisation + client aggregation +
// merge for the given wiring and returns the global result sets.
//   servers: each entry is the list of batches (serialisation intervals) of one server
func evaluate(q *mapr.Query, queryStr string, servers [][][]string) map[string]*mapr.AggregateSet {
	global := mapr.NewGlobalGroupSet()
	for si, batches := range servers {
		msgs, err := server.VerifAggregate(queryStr, batches)
		verifrt.Assert(err == nil, "server side query rejected")
		agg := client.NewAggregate("srv"+string(rune('0'+si)), q, global)
		for _, batch := range msgs {
			for _, m := range batch {
				agg.Aggregate(m) // a message of a set without any value is refused with an error: it carries no data
			}
		}
	}
	return global.VerifSets()
}

// VerifC05aAlgebra: t generickv lines "g=<G>[|x=<D>][|y=<D>]" split over two
// partitions; wiring 0: two servers, wiring 1: one server with two
// serialisation intervals; the distributed result must equal the central one.
func VerifC05aAlgebra(t, op, where, wiring int) {
	dlog.VerifInstall(source.Client)
	sel := ops[op] + "(x)"
	queryStr := "select " + sel + ",count(y) from T "
	if where == 1 {
		queryStr += "where x > 3 "
	}
	queryStr += "group by g logformat generickv"
	q, err := mapr.NewQuery(queryStr)
	verifrt.Assert(err == nil, "query rejected")

	lines := make([]logLine, t)
	var all, p0, p1 []string
	for i := range lines {
		l := &lines[i]
		l.g = verifrt.ByteIn("g", "ab")
		l.hasX = verifrt.Bool("hasx")
		l.hasY = verifrt.Bool("hasy")
		l.x = verifrt.ByteIn("x", "0123456789z")
		l.y = verifrt.ByteIn("y", "0123456789z")
		l.part = verifrt.Bool("part")
		l.text = "g=" + string([]byte{l.g})
		if l.hasX {
			l.text += "|x=" + string([]byte{l.x})
		}
		if l.hasY {
			l.text += "|y=" + string([]byte{l.y})
		}
		all = append(all, l.text)
		if l.part {
			p1 = append(p1, l.text)
		} else {
			p0 = append(p0, l.text)
		}
	}
	central := evaluate(q, queryStr, [][][]string{{all}})
	var dist map[string]*mapr.AggregateSet
	if wiring == 0 {
		dist = evaluate(q, queryStr, [][][]string{{p0}, {p1}})
	} else {
		dist = evaluate(q, queryStr, [][][]string{{p0, p1}})
	}

	verifrt.Assert(len(dist) == len(central), "distributed result has different groups than the central evaluation")
	for key, cs := range central {
		ds, ok := dist[key]
		verifrt.Assert(ok, "a group is missing from the distributed result")
		if !ok {
			continue
		}
		verifrt.Assert(ds.Samples == cs.Samples, "sample count differs between distributed and central evaluation")
		for _, storage := range []string{sel, "count(y)"} {
			cv, cok := cs.FValues[storage]
			dv, dok := ds.FValues[storage]
			isSel := storage == sel
			// partial results of this group that lack the aggregated field
			lacks := false
			if isSel && (op == 2 || op == 3 || op == 5 || op == 6) {
				lacks = partialLacks(lines, key, op, where == 1)
			}
			if isSel && (op == 2 || op == 3 || op == 6) && lacks && !(cok == dok && cv == dv) {
				// known: Merge reads FValues[storage] of a partial without a presence check: absent counts as 0
				verifrt.Finding("C05-KF1", true)
				continue
			}
			if isSel && op == 5 {
				continue // last: string value, below
			}
			if isSel && op == 6 {
				// len: a choice among the lines' values unless a single line carries x
				if n, _ := carriers(lines, key, where == 1); n != 1 {
					continue
				}
			}
			if cok {
				verifrt.Assert(dok && dv == cv, "aggregated value differs between distributed and central evaluation")
			} else {
				// central has no value: distributed may hold the neutral 0 (sum of nothing)
				verifrt.Assert(!dok || dv == 0, "distributed evaluation invented a value")
			}
		}
		if op == 5 || op == 6 {
			// last / len: compared when exactly one line of the group carries x
			n, val := carriers(lines, key, where == 1)
			if n == 1 {
				cvs := cs.SValues[sel]
				dvs := ds.SValues[sel]
				verifrt.Assert(cvs == string([]byte{val}), "central last() is not the only value")
				if dvs != cvs && partialLacks(lines, key, 5, where == 1) {
					verifrt.Finding("C05-KF1", dvs == "")
				} else {
					verifrt.Assert(dvs == cvs, "last()/len() value differs although a single line carries the field")
				}
				verifrt.Reach("last-compared")
			}
		}
	}
	verifrt.Reach("compared")
	if len(p0) > 0 && len(p1) > 0 {
		verifrt.Reach("both-partitions")
	}
}

// selected: does line l pass the where clause (x > 3 needs a numeric x)?
func selected(l *logLine, where bool) bool {
	if !where {
		return true
	}
	return l.hasX && numeric(l.x) && l.x > '3'
}

// partialLacks: is there a partition that has lines of group key but none carrying a usable x?
func partialLacks(lines []logLine, key string, op int, where bool) bool {
	for _, part := range []bool{false, true} {
		has, carries := false, false
		for i := range lines {
			l := &lines[i]
			if l.part != part || string([]byte{l.g}) != key || !selected(l, where) {
				continue
			}
			if !(l.hasX || l.hasY) {
				continue // no selected field at all: the line creates the group but adds nothing
			}
			has = true
			if op == 5 || op == 6 {
				carries = carries || l.hasX
			} else {
				carries = carries || (l.hasX && numeric(l.x))
			}
		}
		if has && !carries {
			return true
		}
	}
	// a partition whose lines of this group carry neither x nor y still creates the group
	for _, part := range []bool{false, true} {
		exists, carries := false, false
		for i := range lines {
			l := &lines[i]
			if l.part != part || string([]byte{l.g}) != key || !selected(l, where) {
				continue
			}
			exists = true
			if op == 5 || op == 6 {
				carries = carries || l.hasX
			} else {
				carries = carries || (l.hasX && numeric(l.x))
			}
		}
		if exists && !carries {
			return true
		}
	}
	return false
}

func carriers(lines []logLine, key string, where bool) (n int, val byte) {
	for i := range lines {
		l := &lines[i]
		if string([]byte{l.g}) == key && selected(l, where) && l.hasX {
			n++
			val = l.x
		}
	}
	return
}
