//verif:dest internal/clients/handlers/zz_verif_c02h.go

package handlers

import (
	"encoding/base64"
	"strings"
	"time"

	"github.com/mimecast/dtail/internal/io/dlog"
	"github.com/mimecast/dtail/internal/protocol"
	"github.com/mimecast/dtail/internal/source"
	"github.com/mimecast/dtail/internal/verifrt"
)

// VerifC02hCommandRead: the client handler hands a command of n bytes to the
// connection's copy loop, which reads with a buffer of P bytes (io.Copy: 32
// KiB): whatever the two sizes, the server receives the whole command,
// terminator included - a command cut short is never dispatched and the
// session neither delivers the file nor ends.
func VerifC02hCommandRead(n, P int) {
	dlog.VerifInstall(source.Client)
	if P == 0 { // every buffer size up to a little more than the command
		P = 1 + verifrt.Choose("buffer", 200)
	}
	h := NewClientHandler("srv")
	cmd := "grep /var/log/f regex " + strings.Repeat("x", n)
	want := "protocol " + protocol.ProtocolCompat + " base64 " + base64.StdEncoding.EncodeToString([]byte(cmd)) + ";"
	go h.SendMessage(cmd)
	next := "cat /g regex:noop "
	want2 := "protocol " + protocol.ProtocolCompat + " base64 " + base64.StdEncoding.EncodeToString([]byte(next)) + ";"
	var got []byte
	done := make(chan struct{})
	go func() {
		p := make([]byte, P)
		for len(got) < len(want) {
			k, err := h.Read(p)
			if err != nil {
				break
			}
			got = append(got, p[:k]...)
		}
		close(done)
	}()
	select {
	case <-done:
	case <-time.After(30 * time.Second):
		verifrt.Assert(false, "a command longer than the reader's buffer never arrives completely: the session hangs")
	}
	verifrt.Assert(string(got) == want, "the command handed to the connection differs from the command sent")
	// the next command starts where the first one ended
	go h.SendMessage(next)
	p := make([]byte, len(want2)+8)
	k, err := h.Read(p)
	verifrt.Assert(err == nil && string(p[:k]) == want2, "the command after a long command is damaged")
	if len(want) > P {
		verifrt.Reach("longer-than-buffer")
	}
	verifrt.Reach("whole-command")
}
