//verif:dest internal/server/zz_verif_c02e.go
//verif:replace@C02e golang.org/x/crypto/ssh.Dial = c02eDial
//verif:replace@C01i golang.org/x/crypto/ssh.Dial = c02eDial
//verif:replace@C02e (*golang.org/x/crypto/ssh.Client).NewSession = c02eNewSession
//verif:replace@C01i (*golang.org/x/crypto/ssh.Client).NewSession = c02eNewSession
//verif:replace@C02e (*golang.org/x/crypto/ssh.Session).StdinPipe = c02eStdin
//verif:replace@C01i (*golang.org/x/crypto/ssh.Session).StdinPipe = c02eStdin
//verif:replace@C02e (*golang.org/x/crypto/ssh.Session).StdoutPipe = c02eStdout
//verif:replace@C01i (*golang.org/x/crypto/ssh.Session).StdoutPipe = c02eStdout
//verif:replace@C02e (*golang.org/x/crypto/ssh.Session).Shell = c02eShell
//verif:replace@C01i (*golang.org/x/crypto/ssh.Session).Shell = c02eShell
//verif:replace@C02e (*golang.org/x/crypto/ssh.Session).Close = c02eSessionClose
//verif:replace@C01i (*golang.org/x/crypto/ssh.Session).Close = c02eSessionClose
//verif:replace@C02e golang.org/x/crypto/ssh.Unmarshal = c14Unmarshal
//verif:replace@C01i golang.org/x/crypto/ssh.Unmarshal = c14Unmarshal
//verif:replace@C02e path/filepath.Glob = c02eGlob
//verif:replace@C01i path/filepath.Glob = c02eGlob
//verif:replace@C02e (*github.com/mimecast/dtail/internal/user/server.User).HasFilePermission = c02ePerm
//verif:replace@C01i (*github.com/mimecast/dtail/internal/user/server.User).HasFilePermission = c02ePerm

package server

import (
	"context"
	"io"
	"strings"
	"time"

	"github.com/mimecast/dtail/internal/clients/connectors"
	"github.com/mimecast/dtail/internal/clients/handlers"
	"github.com/mimecast/dtail/internal/config"
	"github.com/mimecast/dtail/internal/io/dlog"
	"github.com/mimecast/dtail/internal/io/fs"
	"github.com/mimecast/dtail/internal/source"
	user "github.com/mimecast/dtail/internal/user/server"
	"github.com/mimecast/dtail/internal/verifrt"

	gossh "golang.org/x/crypto/ssh"
)

// ---- an in-process stand-in for the SSH channel: two byte pipes ----
//
// A write never blocks (the transport buffers); a read returns whatever has
// arrived so far, several writes coalesced into one read when they arrived
// before the reader looked (as a busy channel does), at most len(p) bytes.

type c02ePipe struct {
	ch     chan []byte
	rest   []byte
	closed chan struct{}
	isDone bool
	tap    func(b []byte) // sees every byte written (harness observation)
}

func c02eNewPipe() *c02ePipe {
	return &c02ePipe{ch: make(chan []byte, 4096), closed: make(chan struct{})}
}
func (p *c02ePipe) Write(b []byte) (int, error) {
	if p.isDone {
		return 0, io.ErrClosedPipe
	}
	if p.tap != nil {
		// a transport write takes locks and may wait for window space before it reads the
		// caller's bytes: a scheduling point
		verifrt.Yield()
	}
	cp := make([]byte, len(b)) // the sender reuses its buffer (io.Copy)
	copy(cp, b)
	if p.tap != nil {
		p.tap(cp)
	}
	p.ch <- cp
	return len(b), nil
}
func (p *c02ePipe) Read(b []byte) (int, error) {
	if len(p.rest) == 0 {
		select {
		case c := <-p.ch:
			p.rest = c
		case <-p.closed:
			// deliver what was written before the close
			select {
			case c := <-p.ch:
				p.rest = c
			default:
				return 0, io.EOF
			}
		}
		for len(p.ch) > 0 { // coalesce everything that has arrived
			p.rest = append(p.rest, (<-p.ch)...)
		}
	}
	n := copy(b, p.rest)
	p.rest = p.rest[n:]
	return n, nil
}
func (p *c02ePipe) Close() error {
	if !p.isDone {
		p.isDone = true
		close(p.closed)
	}
	return nil
}

type c02eWire struct {
	c2s, s2c *c02ePipe
	conn     *c14Conn
}

var c02eW *c02eWire

// several connections at once (C01i): one wire per dialled address, the session of a
// client knows the wire of its connection
var c02eWires map[string]*c02eWire
var c02eSessionWire map[*gossh.Session]*c02eWire

func c02eWireOf(s *gossh.Session) *c02eWire {
	if w, ok := c02eSessionWire[s]; ok {
		return w
	}
	return c02eW
}

var c02eServer *Server
var c02eCtx context.Context

// the server's end of the channel
type c02eChannel struct{ w *c02eWire }

func (c *c02eChannel) Read(data []byte) (int, error)  { return c.w.c2s.Read(data) }
func (c *c02eChannel) Write(data []byte) (int, error) { return c.w.s2c.Write(data) }
func (c *c02eChannel) Close() error                   { c.w.s2c.Close(); return nil }
func (c *c02eChannel) CloseWrite() error              { return nil }
func (c *c02eChannel) SendRequest(name string, wantReply bool, payload []byte) (bool, error) {
	return false, nil
}
func (c *c02eChannel) Stderr() io.ReadWriter { return nil }

// the client's view of x/crypto
func c02eDial(network, addr string, cfg *gossh.ClientConfig) (*gossh.Client, error) {
	if w, ok := c02eWires[addr]; ok {
		return &gossh.Client{Conn: c02eClientConn{w.conn, w}}, nil
	}
	return &gossh.Client{Conn: c02eClientConn{c02eW.conn, c02eW}}, nil
}

// the client's end of the TCP connection: closing it ends the server's connection too
type c02eClientConn struct {
	*c14Conn
	w *c02eWire
}

func (c c02eClientConn) Close() error {
	c.c14Conn.Close()
	c.w.c2s.Close()
	return nil
}
func c02eNewSession(c *gossh.Client) (*gossh.Session, error) {
	s := new(gossh.Session)
	if cc, ok := c.Conn.(c02eClientConn); ok && c02eSessionWire != nil {
		c02eSessionWire[s] = cc.w
	}
	return s, nil
}
func c02eStdin(s *gossh.Session) (io.WriteCloser, error) { return c02eWireOf(s).c2s, nil }
func c02eStdout(s *gossh.Session) (io.Reader, error)     { return c02eWireOf(s).s2c, nil }
func c02eSessionClose(s *gossh.Session) error            { return nil }

// Shell: the server side of the session starts (handleRequests with a shell request)
func c02eShell(s *gossh.Session) error {
	reqs := make(chan *gossh.Request, 2)
	reqs <- &gossh.Request{Type: "shell"}
	u := &user.User{Name: "alice"}
	w := c02eWireOf(s)
	go func() {
		c02eServer.handleRequests(c02eCtx, w.conn, reqs, &c02eChannel{w}, u)
	}()
	return nil
}

func c02eGlob(pattern string) ([]string, error) {
	if _, ok := fs.VerifFiles[pattern]; ok {
		return []string{pattern}, nil
	}
	return nil, nil
}
func c02ePerm(u *user.User, filePath, permissionType string) bool { return true }

type c02eHostKeys struct{}

func (c02eHostKeys) Wrap() gossh.HostKeyCallback      { return gossh.InsecureIgnoreHostKey() }
func (c02eHostKeys) Untrusted(server string) bool      { return false }
func (c02eHostKeys) PromptAddHosts(ctx context.Context) {}

var c02ePaces = []time.Duration{0, 30 * time.Millisecond}

// VerifC02eRemoteSession: a whole remote cat session in process: the real
// client connection (ServerConnection.Start/dial/session/handle with its two
// copy loops and the command sender) and the real server side of a session
// (handleRequests with its copy loops and terminate logic, the server handler,
// read commands, limiter, file readers, the shutdown handshake) joined by a
// stand-in for the SSH channel that coalesces writes: nfiles files of nlines
// lines; the output sink is fast or takes 30 ms per line.
func VerifC02eRemoteSession(nfiles, nlines int) {
	lg := dlog.VerifInstall(source.Client)
	config.Common = &config.CommonConfig{SSHPort: 2222}
	config.Server.MaxConcurrentCats = 2
	config.Server.MaxConcurrentTails = 2
	config.Server.Permissions = config.Permissions{Default: []string{"^/.*$"}}
	pace := c02ePaces[verifrt.Choose("pace", len(c02ePaces))]
	lg.Pace = func() {
		if pace > 0 {
			verifrt.Sleep(pace)
		}
	}
	fs.VerifFiles = nil
	longPath := verifrt.Bool("long-path")
	var want [][]string
	var commands []string
	for f := 0; f < nfiles; f++ {
		var content []byte
		var ls []string
		for i := 0; i < nlines; i++ {
			l := "f" + string(rune('0'+f)) + "l" + string(rune('0'+i)) + "\n"
			ls = append(ls, l)
			content = append(content, l...)
		}
		name := "/f" + string(rune('0'+f))
		if f == nfiles-1 && longPath {
			// a deep directory: the command is longer than 1 KiB on the wire
			name = "/" + strings.Repeat("deep/", 180) + "f" + string(rune('0'+f))
		}
		path := fs.VerifProvideNamed(name, content)
		// the files are read slowly (400 ms per line): every command of the session is
		// still running when the next one arrives (no C02-KF3 window)
		var chunks []int
		for i := 0; i < nlines; i++ {
			chunks = append(chunks, len(content)/nlines)
		}
		fs.VerifFiles[path].Chunks = chunks
		fs.VerifFiles[path].Pace = 400 * time.Millisecond
		want = append(want, ls)
		commands = append(commands, "cat:plain=true:quiet=true "+path+" regex:noop ")
	}
	c02eServer = &Server{catLimiter: make(chan struct{}, 2), tailLimiter: make(chan struct{}, 2), sshServerConfig: &gossh.ServerConfig{}}
	c02eW = &c02eWire{c2s: c02eNewPipe(), s2c: c02eNewPipe(),
		conn: &c14Conn{id: 0, kind: 4, user: "alice", closed: make(chan struct{}), chans: make(chan gossh.NewChannel, 2)}}
	serverCtx, stopServer := context.WithCancel(context.Background())
	c02eCtx = serverCtx

	handler := handlers.NewClientHandler("srv")
	conn := connectors.NewServerConnection("srv", "alice", nil, c02eHostKeys{}, handler, commands)
	ctx, cancel := context.WithCancel(context.Background())
	throttle := make(chan struct{}, 4)
	stats := make(chan struct{}, 4)
	done := make(chan struct{})
	go func() {
		conn.Start(ctx, cancel, throttle, stats)
		close(done)
	}()
	ended := false
	select {
	case <-done:
		ended = true
	case <-time.After(5 * time.Minute):
	}
	verifrt.Assert(ended, "the session did not end by itself")
	verifrt.Sleep(2 * time.Second)
	stopServer()

	next := make([]int, nfiles)
	clean := true
	for _, c := range lg.Raws {
		if c == "" {
			continue
		}
		ok := false
		for f := 0; f < nfiles; f++ {
			if next[f] < nlines && c == want[f][next[f]] {
				next[f]++
				ok = true
				break
			}
		}
		if !ok {
			clean = false
		}
	}
	verifrt.Assert(clean, "something other than the next selected line of a file was printed")
	missing := 0
	for f := 0; f < nfiles; f++ {
		missing += nlines - next[f]
	}
	logged := 0
	for _, l := range lg.Logs {
		if strings.Contains(l, "Some lines remain unsent") {
			logged++
		}
	}
	if missing > 0 {
		// known: once flush() has given up the close handshake can overtake queued lines (slow consumer)
		verifrt.Assert(pace > 0, "lines of the session were not delivered although the consumer is fast and all commands overlap")
		verifrt.Finding("C02-KF1", true)
		verifrt.Reach("lines-lost")
		return
	}
	verifrt.Reach("all-delivered")
}

// VerifC01iTwoRemoteSessions: two clients cat two different files from one
// server at the same time over two connections (the real ServerConnection on
// the client side, the real handleRequests with its copy loops on the server
// side, slow files so that the transfers overlap): each client's output is its
// own file, line by line - nothing of the other session's file.
func VerifC01iTwoRemoteSessions(nlines int) {
	dlog.VerifInstall(source.Client)
	config.Common = &config.CommonConfig{SSHPort: 2222}
	config.Server.MaxConcurrentCats = 2
	config.Server.MaxConcurrentTails = 2
	config.Server.Permissions = config.Permissions{Default: []string{"^/.*$"}}
	fs.VerifFiles = nil
	c02eServer = &Server{catLimiter: make(chan struct{}, 2), tailLimiter: make(chan struct{}, 2), sshServerConfig: &gossh.ServerConfig{}}
	c02eWires = map[string]*c02eWire{}
	c02eSessionWire = map[*gossh.Session]*c02eWire{}
	serverCtx, stopServer := context.WithCancel(context.Background())
	c02eCtx = serverCtx
	type out struct{ got []byte }
	outs := []*out{{}, {}}
	var want []string
	done := make(chan struct{}, 2)
	for k := 0; k < 2; k++ {
		var content []byte
		for i := 0; i < nlines; i++ {
			content = append(content, "session"+string(rune('A'+k))+"-line"+string(rune('0'+i))+"\n"...)
		}
		path := fs.VerifProvideNamed("/f"+string(rune('0'+k)), content)
		var chunks []int
		for i := 0; i < nlines; i++ {
			chunks = append(chunks, len(content)/nlines)
		}
		fs.VerifFiles[path].Chunks = chunks
		fs.VerifFiles[path].Pace = 400 * time.Millisecond
		want = append(want, string(content))
		addr := "srv" + string(rune('A'+k)) + ":2222"
		c02eWires[addr] = &c02eWire{c2s: c02eNewPipe(), s2c: c02eNewPipe(),
			conn: &c14Conn{id: k, kind: 4, user: "alice", closed: make(chan struct{}), chans: make(chan gossh.NewChannel, 2)}}
		handler := &c01iHandler{Handler: handlers.NewClientHandler(addr), sink: outs[k]}
		_ = handler
		conn := connectors.NewServerConnection("srv"+string(rune('A'+k)), "alice", nil, c02eHostKeys{}, handlers.NewClientHandler(addr),
			[]string{"cat:plain=true:quiet=true " + path + " regex:noop "})
		// what this connection's server end sends is recorded at the client's end of its wire
		w := c02eWires[addr]
		o := outs[k]
		w.s2c.tap = func(b []byte) { o.got = append(o.got, b...) }
		ctx, cancel := context.WithCancel(context.Background())
		go func() {
			conn.Start(ctx, cancel, make(chan struct{}, 4), make(chan struct{}, 4))
			done <- struct{}{}
		}()
	}
	for k := 0; k < 2; k++ {
		select {
		case <-done:
		case <-time.After(5 * time.Minute):
			verifrt.Assert(false, "a session did not end by itself")
		}
	}
	verifrt.Sleep(2 * time.Second)
	stopServer()
	for k := 0; k < 2; k++ {
		// the wire carries the plain lines, each followed by the message delimiter, and the
		// hidden close handshake at the end
		got := strings.ReplaceAll(string(outs[k].got), "\xac", "")
		if i := strings.Index(got, ".syn"); i >= 0 {
			got = got[:i]
		}
		verifrt.Assert(got == want[k], "what a client receives differs from its file (content of another session's transfer, or damaged lines)")
	}
	c02eWires, c02eSessionWire = nil, nil
	verifrt.Reach("both-intact")
}

type c01iHandler struct {
	handlers.Handler
	sink interface{}
}
