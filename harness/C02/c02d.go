//verif:dest internal/server/handlers/zz_verif_c02d.go

package handlers

import (
	"encoding/base64"
	"time"

	"github.com/mimecast/dtail/internal/io/dlog"
	"github.com/mimecast/dtail/internal/source"
	"github.com/mimecast/dtail/internal/verifrt"
)

// VerifC02dCommandStream: the k read commands of one session (one per file, as
// the client frames them: "protocol <v> base64 <...>;") reach the server's
// Write in every chunking out of a set of representative cut points — one
// command per write, all in one write (as a busy SSH channel coalesces them),
// cut inside a command, cut right before/after the ';': every file named by a
// command is read exactly once.
func VerifC02dCommandStream(k int) {
	dlog.VerifInstall(source.Server)
	var wire []byte
	var ends []int
	for i := 0; i < k; i++ {
		cmd := "cat:quiet=true /var/log/f" + string(rune('0'+i)) + " regex:noop "
		wire = append(wire, ("protocol 4.1 base64 " + base64.StdEncoding.EncodeToString([]byte(cmd)) + ";")...)
		ends = append(ends, len(wire))
	}
	// representative cut points
	cuts := []int{0, 1, ends[0] / 2, ends[0] - 1, ends[0], ends[0] + 1, len(wire) - 1}
	if k > 2 {
		cuts = append(cuts, ends[1], ends[1]+7)
	}
	for i := range cuts { // (with a single command some points lie behind the end)
		if cuts[i] > len(wire) {
			cuts[i] = len(wire)
		}
		if cuts[i] < 0 {
			cuts[i] = 0
		}
	}
	a := cuts[verifrt.Choose("cut1", len(cuts))]
	b := cuts[verifrt.Choose("cut2", len(cuts))]
	if a > b {
		a, b = b, a
	}
	VerifCaptureGlobs = true
	VerifGlobCh = make(chan VerifGlob, 16)
	sh := VerifNewServerHandler(false, false, false, 2, 2)
	for _, chunk := range [][]byte{wire[:a], wire[a:b], wire[b:]} {
		if len(chunk) > 0 {
			n, err := sh.Write(chunk)
			verifrt.Assert(err == nil && n == len(chunk), "Write did not take the whole chunk")
		}
	}
	seen := map[string]int{}
	for {
		select {
		case g := <-VerifGlobCh:
			seen[g.Glob]++
			continue
		case <-time.After(time.Second):
		}
		break
	}
	for i := 0; i < k; i++ {
		verifrt.Assert(seen["/var/log/f"+string(rune('0'+i))] == 1, "a file named by a command of the session was not read exactly once")
	}
	verifrt.Assert(len(seen) == k, "a read was started that no command asked for")
	if a == 0 && b == 0 {
		verifrt.Reach("all-in-one-write")
	}
	if a == ends[0] {
		verifrt.Reach("one-command-per-write")
	}
	verifrt.Reach("checked")
}
