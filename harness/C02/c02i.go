//verif:dest internal/io/fs/zz_verif_c02i.go

package fs

import (
	"context"
	"strings"

	"github.com/mimecast/dtail/internal/config"
	"github.com/mimecast/dtail/internal/io/dlog"
	"github.com/mimecast/dtail/internal/io/line"
	"github.com/mimecast/dtail/internal/lcontext"
	"github.com/mimecast/dtail/internal/regex"
	"github.com/mimecast/dtail/internal/source"
	"github.com/mimecast/dtail/internal/verifrt"
)

// VerifC02iLongLines: the cat reader (readFile.Start with its reader, filter
// and truncate goroutines) over a file of three lines, the middle one of any
// length from 0 to 3*M+2 where M = MaxLineLength, the last one with or without
// a newline, of arbitrary bytes: a line longer than MaxLineLength is delivered in pieces, and the
// pieces together carry every byte of the line, in order (only newlines are
// inserted where the line is cut); no line is lost on either side of it.
func VerifC02iLongLines(M int) {
	dlog.VerifInstall(source.Server)
	config.Server.MaxLineLength = M
	n := verifrt.Choose("long-line-length", 3*M+3)
	lastTerminated := verifrt.Choose("last-line-terminated", 2) == 1
	var sb strings.Builder
	sb.WriteString("A\n")
	body := verifrt.Bytes("long-line", n) // arbitrary bytes other than the newline
	for i := 0; i < n; i++ {
		verifrt.Assume(body[i] != '\n')
		sb.WriteByte(body[i])
	}
	sb.WriteString("\nZ")
	if lastTerminated {
		sb.WriteString("\n")
	}
	want := sb.String()
	path := VerifProvide([]byte(want))
	lines := make(chan *line.Line, 4*M+16)
	cat := NewCatFile(path, "f", make(chan string, 4*M+16))
	err := cat.Start(context.Background(), lcontext.LContext{}, lines, regex.NewNoop())
	close(lines)
	verifrt.Assert(err == nil, "the reader reported an error")
	var got strings.Builder
	pieces := 0
	for l := range lines {
		got.Write(l.Content.Bytes())
		pieces++
		verifrt.Assert(l.Count == uint64(pieces), "line number wrong")
	}
	strip := func(s string) string { return strings.ReplaceAll(s, "\n", "") }
	verifrt.Assert(strip(got.String()) == strip(want), "bytes of a selected line are missing, duplicated or reordered where a long line is split")
	verifrt.Assert(pieces >= 3, "fewer messages delivered than the file has lines")
	if n > M {
		verifrt.Assert(pieces >= 4, "a line longer than MaxLineLength was not split")
		verifrt.Reach("long-line-split")
	}
	verifrt.Reach("all-delivered")
}
