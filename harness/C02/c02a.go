//verif:dest internal/io/fs/zz_verif_c02a.go
//verif:replace@C02a (*regexp.Regexp).Match = c02Match
//verif:replace@C02a regexp.Compile = c02Compile

package fs

import (
	"bytes"
	"regexp"

	"github.com/mimecast/dtail/internal/io/dlog"
	"github.com/mimecast/dtail/internal/regex"
	"github.com/mimecast/dtail/internal/source"
	"github.com/mimecast/dtail/internal/verifrt"
)

var c02M bool

func c02Compile(expr string) (*regexp.Regexp, error) { return new(regexp.Regexp), nil }
func c02Match(re *regexp.Regexp, b []byte) bool      { return c02M }

// VerifC02aNoSkip: for every queue length and capacity, a cat/grep reader
// never skips a selected line; a follow may skip only when the queue is full.
func VerifC02aNoSkip() {
	dlog.VerifInstall(source.Server)
	re, err := regex.New("x", regex.Default)
	verifrt.Assert(err == nil, "regex")
	c02M = verifrt.Bool("matches")
	length := verifrt.Int("length")
	capacity := verifrt.Int("capacity")
	raw := &bytes.Buffer{}
	raw.WriteString("l\n")

	cat := NewCatFile("f", "f", make(chan string, 1))
	f := &cat.readFile
	f.updatePosition()
	_, ok := f.transmittable(raw, length, capacity, re)
	verifrt.Assert(ok == c02M, "a cat/grep reader skipped a selected line (or delivered an unselected one)")

	tail := NewTailFile("f", "f", make(chan string, 1))
	g := &tail.readFile
	g.updatePosition()
	_, ok2 := g.transmittable(raw, length, capacity, re)
	if c02M && !ok2 {
		verifrt.Assert(length >= capacity, "a follow dropped a line although the queue had room")
		verifrt.Reach("tail-may-drop")
	}
	verifrt.Assert(c02M || !ok2, "a follow delivered an unselected line")
	verifrt.Reach("checked")
}
