//verif:dest internal/io/fs/zz_verif_c02b.go

package fs

import (
	"context"
	"time"

	"github.com/mimecast/dtail/internal/config"
	"github.com/mimecast/dtail/internal/io/dlog"
	"github.com/mimecast/dtail/internal/io/line"
	"github.com/mimecast/dtail/internal/lcontext"
	"github.com/mimecast/dtail/internal/regex"
	"github.com/mimecast/dtail/internal/source"
	"github.com/mimecast/dtail/internal/verifrt"
)

var c02bStalls = []time.Duration{0, 2 * time.Second}
var c02bPaces = []time.Duration{0, 20 * time.Millisecond}

// VerifC02bReaderQueues: the cat reader alone (readFile.Start: reader, filter
// and truncate goroutines with the real internal queue of 100 raw lines) against
// a consumer that may start late and may be slow: a file of nlines lines, the
// last one with or without a newline, through an output queue of linesCap
// entries. Every line reaches the consumer once, in order, whatever the pace:
// more lines than both queues hold make the reader block on a full queue at
// every stage, including at end-of-file.
func VerifC02bReaderQueues(nlines, linesCap int) {
	dlog.VerifInstall(source.Server)
	config.Server.MaxLineLength = 1024
	lastTerminated := verifrt.Choose("last-line-terminated", 2) == 1
	stall := c02bStalls[verifrt.Choose("consumer-starts-after", len(c02bStalls))]
	pace := c02bPaces[verifrt.Choose("consumer-pace", len(c02bPaces))]

	var content []byte
	var want []string
	for i := 0; i < nlines; i++ {
		l := "l" + string(rune('0'+i/100)) + string(rune('0'+i/10%10)) + string(rune('0'+i%10))
		if i < nlines-1 || lastTerminated {
			l += "\n"
		}
		want = append(want, l)
		content = append(content, l...)
	}
	path := VerifProvide(content)
	lines := make(chan *line.Line, linesCap)
	cat := NewCatFile(path, "f", make(chan string, 10))
	done := make(chan error, 1)
	go func() {
		done <- cat.Start(context.Background(), lcontext.LContext{}, lines, regex.NewNoop())
		close(lines)
	}()
	if stall > 0 {
		verifrt.Sleep(stall)
	}
	var got []string
	for l := range lines {
		got = append(got, string(l.Content.Bytes()))
		verifrt.Assert(l.Count == uint64(len(got)), "line number wrong")
		if pace > 0 {
			verifrt.Sleep(pace)
		}
	}
	verifrt.Assert(<-done == nil, "the reader reported an error")
	verifrt.Assert(len(got) <= len(want), "more lines delivered than the file has")
	for i := range got {
		verifrt.Assert(got[i] == want[i], "a delivered line is not the next line of the file (skipped, duplicated or modified)")
	}
	verifrt.Assert(len(got) == len(want), "lines of the file were not delivered although the reader finished")
	if stall > 0 && nlines > 101+linesCap {
		verifrt.Reach("queues-full-at-eof")
	}
	verifrt.Reach("all-delivered")
}
