//verif:dest internal/clients/connectors/zz_verif_c02c.go
//verif:replace@C02c path/filepath.Glob = c02Glob
//verif:replace@C02c os.Lstat = c02Lstat
//verif:replace@C02c os.Stat = c02Lstat
//verif:replace@C02c (*github.com/mimecast/dtail/internal/user/server.User).HasFilePermission = c02Perm

package connectors

import (
	"context"
	"errors"
	iofs "io/fs"
	"os"
	"path/filepath"
	"strings"
	"time"

	"github.com/mimecast/dtail/internal/clients/handlers"
	"github.com/mimecast/dtail/internal/config"
	"github.com/mimecast/dtail/internal/io/dlog"
	"github.com/mimecast/dtail/internal/io/fs"
	"github.com/mimecast/dtail/internal/source"
	user "github.com/mimecast/dtail/internal/user/server"
	"github.com/mimecast/dtail/internal/verifrt"
)

// the file system of the session: the files provided by the harness; a pattern is
// matched against their names with the real filepath.Match
func c02Glob(pattern string) ([]string, error) {
	var names []string
	for i := 0; i < len(fs.VerifFiles); i++ {
		names = append(names, "/f"+string(rune('0'+i)))
	}
	var out []string
	for _, n := range names {
		if _, ok := fs.VerifFiles[n]; !ok {
			continue
		}
		ok, err := filepath.Match(pattern, n)
		if err != nil {
			return nil, err
		}
		if ok {
			out = append(out, n)
		}
	}
	return out, nil
}

type c02Info struct{ name string }

func (i c02Info) Name() string        { return i.name }
func (i c02Info) Size() int64         { return 0 }
func (i c02Info) Mode() iofs.FileMode { return 0o644 }
func (i c02Info) ModTime() time.Time  { return time.Time{} }
func (i c02Info) IsDir() bool         { return false }
func (i c02Info) Sys() interface{}    { return nil }

func c02Lstat(name string) (os.FileInfo, error) {
	if _, ok := fs.VerifFiles[name]; ok {
		return c02Info{name}, nil
	}
	return nil, errors.New("lstat " + name + ": no such file or directory")
}
func c02Perm(u *user.User, filePath, permissionType string) bool { return true }

// c02SlowSender delays every command after the first one.
type c02SlowSender struct {
	handlers.Handler
	gap  time.Duration
	sent int
}

func (h *c02SlowSender) SendMessage(command string) error {
	if h.sent > 0 && h.gap > 0 && !strings.HasPrefix(command, ".ack") {
		verifrt.Sleep(h.gap)
	}
	h.sent++
	return h.Handler.SendMessage(command)
}

var c02Paces = []time.Duration{0, 30 * time.Millisecond, 500 * time.Millisecond}

// VerifC02cSession: a whole serverless cat session in process: nfiles files of
// nlines lines, the real server handler, read commands, limiter, file readers,
// both copy loops and the client handler; the output sink takes a symbolic time
// per line and may stall once for 6 s at a symbolic point.
func VerifC02cSession(nfiles, nlines, cats int) {
	lg := dlog.VerifInstall(source.Client)
	config.Server.MaxConcurrentCats = cats
	config.Server.Permissions = config.Permissions{Default: []string{"^/.*$"}}
	pace := c02Paces[verifrt.Choose("pace", len(c02Paces))]
	stallAt := verifrt.Choose("stall-at", nfiles*nlines+2) - 1 // -1: no stall
	printed := 0
	lg.Pace = func() {
		d := pace
		if printed == stallAt {
			d = 6 * time.Second
		}
		printed++
		if d > 0 {
			verifrt.Sleep(d)
		}
	}
	fs.VerifFiles = nil
	var want [][]string
	var commands []string
	for f := 0; f < nfiles; f++ {
		var content []byte
		var ls []string
		for i := 0; i < nlines; i++ {
			l := "f" + string(rune('0'+f)) + "l" + string(rune('0'+i)) + "\n"
			ls = append(ls, l)
			content = append(content, l...)
		}
		path := fs.VerifProvideNamed("/f"+string(rune('0'+f)), content)
		want = append(want, ls)
		commands = append(commands, "cat:plain=true:quiet=true:serverless=true "+path+" regex:noop ")
	}
	// the files may also be named by one glob in a single command (dcat "/f*")
	if nfiles > 1 {
		if g := verifrt.Choose("one-glob-command", 3); g > 0 {
			glob := []string{"", "/f?", "/[e-g][0-9]*"}[g]
			commands = []string{"cat:plain=true:quiet=true:serverless=true " + glob + " regex:noop "}
			verifrt.Reach("glob-command")
		}
	}
	// the client may send the commands of the session with a gap between them
	gap := []time.Duration{0, 300 * time.Millisecond}[verifrt.Choose("command-gap", 2)]
	inner := handlers.NewClientHandler("local(serverless)")
	handler := &c02SlowSender{Handler: inner, gap: gap}
	s := NewServerless("u", handler, commands)
	ctx, cancel := context.WithCancel(context.Background())
	done := make(chan struct{})
	go func() {
		s.Start(ctx, cancel, nil, nil)
		close(done)
	}()
	ended := false
	select {
	case <-done:
		ended = true
	case <-time.After(5 * time.Minute):
	}
	verifrt.Assert(ended, "the session did not end by itself")

	// what reached the output: content (Raw calls) per file, in order, exactly once
	next := make([]int, nfiles)
	clean := true
	for _, c := range lg.Raws {
		if c == "" {
			continue
		}
		ok := false
		for f := 0; f < nfiles; f++ {
			if next[f] < nlines && c == want[f][next[f]] {
				next[f]++
				ok = true
				break
			}
		}
		if !ok {
			clean = false
		}
	}
	verifrt.Assert(clean, "something other than the next selected line of a file was printed")
	missing := 0
	for f := 0; f < nfiles; f++ {
		missing += nlines - next[f]
	}
	logged := 0
	for _, l := range lg.Logs {
		if strings.Contains(l, "Some lines remain unsent") {
			logged++
		}
	}
	if missing > 0 && gap > 0 && nfiles > 1 && pace == 0 && stallAt < 0 {
		// known: the session is shut down as soon as no command is active; a command that
		// arrives after the previous one has finished finds the session closing
		verifrt.Finding("C02-KF3", true)
		verifrt.Reach("later-command-lost")
	} else if missing > 0 {
		// known: once flush() has given up (10 x 10 ms) the close handshake can overtake queued lines
		verifrt.Assert(pace > 0 || stallAt >= 0, "selected lines of the session were not delivered although the consumer keeps up")
		verifrt.Finding("C02-KF1", true)
		verifrt.Reach("lines-lost")
	}
	if logged > 0 {
		// known: the WARN line goes to the same stdout as the content
		verifrt.Finding("C02-KF2", pace > 0 || stallAt >= 0)
	}
	if missing == 0 && logged == 0 {
		verifrt.Reach("all-delivered")
	}
}

// VerifC02cManySlowFiles: a serverless cat session over nfiles files with a cat
// limit of cats, every file read slowly (3 s per line: the first reads are
// still running long after the client has handed over all its commands), a
// consumer that keeps up and no gap between the commands - so none of the
// known shutdown windows applies: every line of every file is delivered and
// the session ends by itself.
func VerifC02cManySlowFiles(nfiles, cats int) {
	lg := dlog.VerifInstall(source.Client)
	config.Server.MaxConcurrentCats = cats
	config.Server.Permissions = config.Permissions{Default: []string{"^/.*$"}}
	fs.VerifFiles = nil
	const nlines = 2
	var want [][]string
	var commands []string
	for f := 0; f < nfiles; f++ {
		var content []byte
		var ls []string
		for i := 0; i < nlines; i++ {
			l := "f" + string(rune('0'+f)) + "l" + string(rune('0'+i)) + "\n"
			ls = append(ls, l)
			content = append(content, l...)
		}
		path := fs.VerifProvideNamed("/f"+string(rune('0'+f)), content)
		fs.VerifFiles[path].Chunks = []int{len(content) / nlines, len(content) / nlines}
		fs.VerifFiles[path].Pace = 3 * time.Second
		want = append(want, ls)
		commands = append(commands, "cat:plain=true:quiet=true:serverless=true "+path+" regex:noop ")
	}
	handler := handlers.NewClientHandler("local(serverless)")
	s := NewServerless("u", handler, commands)
	ctx, cancel := context.WithCancel(context.Background())
	done := make(chan struct{})
	go func() {
		s.Start(ctx, cancel, nil, nil)
		close(done)
	}()
	ended := false
	select {
	case <-done:
		ended = true
	case <-time.After(5 * time.Minute):
	}
	verifrt.Assert(ended, "the session did not end by itself")
	next := make([]int, nfiles)
	for _, c := range lg.Raws {
		if c == "" {
			continue
		}
		ok := false
		for f := 0; f < nfiles; f++ {
			if next[f] < nlines && c == want[f][next[f]] {
				next[f]++
				ok = true
				break
			}
		}
		verifrt.Assert(ok, "something other than the next selected line of a file was printed")
	}
	for f := 0; f < nfiles; f++ {
		verifrt.Assert(next[f] == nlines, "lines of a requested file were not delivered although the consumer keeps up and all reads overlap")
	}
	verifrt.Reach("all-delivered")
}
